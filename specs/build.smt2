; build.smt2 — C17 spec functions, transcribed from the documented behaviour of go/build
; (GOROOT/src/go/build/build.go matchTag, goodOSArchFile; go/build/constraint/expr.go
; parsePlusBuildExpr, isValidTag; internal/syslist). Written from the reference, never from yaegi.

(define-fun knownOSspec ((s String)) Bool
  (or (= s "aix") (= s "android") (= s "darwin") (= s "dragonfly") (= s "freebsd") (= s "hurd")
      (= s "illumos") (= s "ios") (= s "js") (= s "linux") (= s "nacl") (= s "netbsd") (= s "openbsd")
      (= s "plan9") (= s "solaris") (= s "wasip1") (= s "windows") (= s "zos")))

(define-fun knownArchSpec ((s String)) Bool
  (or (= s "386") (= s "amd64") (= s "amd64p32") (= s "arm") (= s "armbe") (= s "arm64") (= s "arm64be")
      (= s "loong64") (= s "mips") (= s "mipsle") (= s "mips64") (= s "mips64le") (= s "mips64p32")
      (= s "mips64p32le") (= s "ppc") (= s "ppc64") (= s "ppc64le") (= s "riscv") (= s "riscv64")
      (= s "s390") (= s "s390x") (= s "sparc") (= s "sparc64") (= s "wasm")))

(define-fun unixOSspec ((s String)) Bool
  (or (= s "aix") (= s "android") (= s "darwin") (= s "dragonfly") (= s "freebsd") (= s "hurd")
      (= s "illumos") (= s "ios") (= s "linux") (= s "netbsd") (= s "openbsd") (= s "solaris")))

; matchTag without the three list memberships (BuildTags, ToolTags, ReleaseTags), which the
; contracts state with a bounded quantifier over the real slices.
(define-fun matchCore ((t String) (goos String) (goarch String) (compiler String) (cgo Bool)) Bool
  (or (and cgo (= t "cgo")) (= t goos) (= t goarch) (= t compiler)
      (and (= goos "android") (= t "linux"))
      (and (= goos "illumos") (= t "solaris"))
      (and (= goos "ios") (= t "darwin"))
      (and (= t "unix") (unixOSspec goos))))

; isValidTag restricted to ASCII (letters beyond ASCII are outside every claimed cell)
(define-fun validTag ((s String)) Bool
  (str.in_re s (re.+ (re.union (re.range "a" "z") (re.range "A" "Z") (re.range "0" "9") (str.to_re "_") (str.to_re ".")))))

(define-fun stripBang ((s String)) String
  (ite (str.prefixof "!" s) (str.substr s 1 (- (str.len s) 1)) s))

; one comma-separated term of a "+build" line: parsePlusBuildExpr
;   "!!..." and "!" are tag("ignore"); "!x" negates; an invalid tag is tag("ignore") (negated if "!")
(define-fun plusBuildTerm ((s String) (mx Bool) (mign Bool)) Bool
  (ite (or (str.prefixof "!!" s) (= s "!")) mign
    (ite (str.prefixof "!" s)
      (not (ite (validTag (stripBang s)) mx mign))
      (ite (validTag s) mx mign))))

(define-fun allDigits ((s String)) Bool (>= (str.to_int s) 0))

; goodOSArchFile on the last two underscore-separated words (after go/build has dropped a
; trailing "test"): prev is "" when there is no such word. m* are matchTag of the two words.
(define-fun goodOSArch ((prev String) (last String) (mprev Bool) (mlast Bool)) Bool
  (ite (and (knownOSspec prev) (knownArchSpec last)) (and mlast mprev)
    (ite (or (knownOSspec last) (knownArchSpec last)) mlast true)))
