; ops.smt2 — C02 spec functions: Go's operator semantics per reflect.Kind, written from the Go
; specification ("Arithmetic operators", "Integer overflow", "Comparison operators").
; reflect.Kind numbering (reflect/type.go): Bool=1 Int=2 Int8=3 Int16=4 Int32=5 Int64=6 Uint=7 Uint8=8
; Uint16=9 Uint32=10 Uint64=11 Uintptr=12 Float32=13 Float64=14 Complex64=15 Complex128=16 String=24.
; int, uint and uintptr are 64 bits wide (the interpreter runs on a 64-bit host; stated assumption).

(declare-fun rvKind (Int) Int)     ; kind of a reflect.Value
(declare-fun rtKind (Int) Int)     ; kind of a reflect.Type
(declare-fun operandOf (Int Int) Int)  ; the value genValue(node) yields in a frame (A2)
(declare-fun destOf (Int Int) Int)     ; the destination location genValueOutput(node, t) yields in a frame (A2)
; multiplication / truncated division / remainder over the integers, kept uninterpreted on both
; sides of an obligation: what is proved is operand identity plus the modular lemma
(declare-fun mulZ (Int Int) Int)
(declare-fun tdivZ (Int Int) Int)
(declare-fun tmodZ (Int Int) Int)
; floating point and complex arithmetic: the operation applied, uninterpreted (assumption T7)
(declare-fun fadd (Int Int) Int) (declare-fun fsub (Int Int) Int) (declare-fun fmul (Int Int) Int) (declare-fun fdiv (Int Int) Int)
(declare-fun cadd (Int Int) Int) (declare-fun csub (Int Int) Int) (declare-fun cmul (Int Int) Int) (declare-fun cdiv (Int Int) Int)
(declare-fun flt (Int Int) Bool) (declare-fun fle (Int Int) Bool) (declare-fun fgt (Int Int) Bool) (declare-fun fge (Int Int) Bool)
(declare-fun fneg (Int) Int) (declare-fun cneg (Int) Int)  ; unary minus of a float / complex: the sign flip (-(+0) is -0; not 0 - x)
(declare-fun round32 (Int) Int)
(assert (forall ((c Int)) (! (= (round32 (constF32 c)) (constF32 c)) :pattern ((constF32 c)))))  ; a float32 value is a fixed point of rounding to float32

(define-fun isSignedKind ((k Int)) Bool (and (>= k 2) (<= k 6)))
(define-fun isUnsignedKind ((k Int)) Bool (and (>= k 7) (<= k 12)))
(define-fun isIntKind ((k Int)) Bool (and (>= k 2) (<= k 12)))
(define-fun isFloatKind ((k Int)) Bool (or (= k 13) (= k 14)))
(define-fun isComplexKind ((k Int)) Bool (or (= k 15) (= k 16)))

(define-fun wrapS8 ((x Int)) Int (- (mod (+ x 128) 256) 128))
(define-fun wrapS16 ((x Int)) Int (- (mod (+ x 32768) 65536) 32768))
(define-fun wrapS32 ((x Int)) Int (- (mod (+ x 2147483648) 4294967296) 2147483648))
(define-fun wrapS64 ((x Int)) Int (- (mod (+ x 9223372036854775808) 18446744073709551616) 9223372036854775808))
(define-fun wrapU8 ((x Int)) Int (mod x 256))
(define-fun wrapU16 ((x Int)) Int (mod x 65536))
(define-fun wrapU32 ((x Int)) Int (mod x 4294967296))
(define-fun wrapU64 ((x Int)) Int (mod x 18446744073709551616))

; the value of kind k that the mathematical integer x denotes after Go's wrap-around
(define-fun wrapKind ((k Int) (x Int)) Int
  (ite (= k 3) (wrapS8 x) (ite (= k 4) (wrapS16 x) (ite (= k 5) (wrapS32 x) (ite (or (= k 2) (= k 6)) (wrapS64 x)
  (ite (= k 8) (wrapU8 x) (ite (= k 9) (wrapU16 x) (ite (= k 10) (wrapU32 x) (wrapU64 x)))))))))

(define-fun inRangeK ((k Int) (x Int)) Bool (= (wrapKind k x) x))
(define-fun roundKind ((k Int) (x Int)) Int (ite (= k 13) (round32 x) x))
(declare-fun constInt (Int) Int)   ; exact integer value of a go/constant value (after ToInt)
; go/constant constructors and Compare on Int / Bool / String constants (T4): the facts are stated by the engine,
; as ground instances, where MakeInt64 / MakeUint64 / MakeBool / MakeString / Compare are applied in the code
; (quantified axioms here made every query of every property an order of magnitude slower)
(declare-fun constMakeInt (Int) Int) (declare-fun constMakeBool (Bool) Int) (declare-fun constMakeString (String) Int)
(declare-fun constMakeFloat (Int) Int) (declare-fun constMakeImag (Int) Int) (declare-fun rvCanAddr (Int) Bool)
; token: EQL=39 LSS=40 GTR=41 NEQ=44 LEQ=45 GEQ=46
(define-fun tokCmpInt ((t Int) (a Int) (b Int)) Bool (ite (= t 39) (= a b) (ite (= t 40) (< a b) (ite (= t 41) (> a b) (ite (= t 44) (not (= a b)) (ite (= t 45) (<= a b) (>= a b)))))))
(declare-fun croundKind (Int Int) Int)
(declare-fun rvLen (Int) Int)
(declare-fun rvSliceOp (Int Int Int) Int)        ; reflect.Value.Slice(i, j)
(declare-fun rvSlice3Op (Int Int Int Int) Int)   ; reflect.Value.Slice3(i, j, k)
(declare-fun arrayOf (Int Int) Int)              ; what genValueArray(node) yields in a frame (A2)
(declare-fun rtConvertibleTo (Int Int) Bool)   ; reflect.Type.ConvertibleTo
(declare-fun rtAssignableTo (Int Int) Bool)    ; reflect.Type.AssignableTo
(declare-fun rtComparable (Int) Bool)          ; reflect.Type.Comparable
(declare-fun fIsInf (Int) Bool)   ; math.IsInf(f, 0) on a float value
(declare-fun rvConvertOp (Int Int) Int)   ; reflect.Value.Convert of a value of statically unknown kind
; reflect operations kept uninterpreted (C04 builtins: delegation with the operands in order)
(declare-fun rvCap (Int) Int)
(declare-fun rvAddrOp (Int) Int)
(declare-fun rvAppendSliceOp (Int Int) Int)
(declare-fun rvCopyOp (Int Int) Int)
(declare-fun rvMapIndexOp (Int Int) Int)
(declare-fun rvIndexOp (Int Int) Int)
(declare-fun rvMapSet (Int Int Int) Int)
(declare-fun rtPtrTo (Int) Int)
(declare-fun rvValid (Int) Bool)   ; reflect.Value.IsValid
(declare-fun slotOf2 (Int Int Int) Int)   ; the location valueGenerator(n, i) yields in frame f
(declare-fun destValueOf (Int Int Int) Int)   ; what genDestValue(typ, n) yields in frame f
(declare-fun implementsRT (Int Int) Bool)   ; the interpreter type implements the host interface type (reflect type)
(declare-fun rvAppendSpreadOp (Int Int) Int)   ; reflect.Append(s, vs...) with vs a []reflect.Value
(declare-fun rvAppend1Op (Int Int) Int)        ; reflect.Append(s, v)
(declare-fun rvMakeSliceOp (Int Int Int) Int)     ; reflect.MakeSlice(t, len, cap)
(declare-fun rvMakeChanOp (Int Int) Int)          ; reflect.MakeChan(t, buffer)
(declare-fun rvMakeMapOp (Int Int) Int)           ; reflect.MakeMapWithSize(t, n)
(declare-fun rvMakeMap1Op (Int) Int)              ; reflect.MakeMap(t)
(declare-fun rtChanDir (Int) Int)                 ; reflect.Type.ChanDir
(declare-fun rtLen (Int) Int)                     ; reflect.Type.Len
(declare-fun rtElem (Int) Int)                    ; reflect.Type.Elem
(declare-fun rtKey (Int) Int)                     ; reflect.Type.Key
(declare-fun rvZeroX (Int) Int)                  ; interface content of reflect.Zero(t)
(declare-fun rangeCopyOf (Int Int) Int)          ; what genValueRangeArray(node) yields in a frame: the range operand evaluated once, arrays copied (A2)
(declare-fun rtImplements (Int Int) Bool)          ; reflect.Type.Implements
(declare-fun rtField (Int Int) Int)                ; reflect.Type.Field(i): location of the field descriptor
