; common.smt2 — arithmetic helpers shared by every proof unit.
; Truncated division and remainder of the Go specification over mathematical integers.
(define-fun absZ ((a Int)) Int (ite (>= a 0) a (- a)))
(define-fun tdiv ((a Int) (b Int)) Int
  (ite (= b 0) 0
    (ite (= (>= a 0) (> b 0)) (div (absZ a) (absZ b)) (- (div (absZ a) (absZ b))))))
(define-fun tmod ((a Int) (b Int)) Int (- a (* b (tdiv a b))))

; strconv.Atoi (trusted library model T5): base-10, optional sign, range error beyond int64
(define-fun allDigitsZ ((s String)) Bool (>= (str.to_int s) 0))
(define-fun atoiBody ((s String)) String
  (ite (or (str.prefixof "-" s) (str.prefixof "+" s)) (str.substr s 1 (- (str.len s) 1)) s))
(define-fun atoiMag ((s String)) Int (str.to_int (atoiBody s)))
(define-fun atoiErr ((s String)) Int
  (ite (and (allDigitsZ (atoiBody s))
            (ite (str.prefixof "-" s) (<= (atoiMag s) 9223372036854775808) (<= (atoiMag s) 9223372036854775807)))
       0 1))
(define-fun atoiVal ((s String)) Int
  (ite (not (allDigitsZ (atoiBody s))) 0
    (ite (str.prefixof "-" s)
      (ite (<= (atoiMag s) 9223372036854775808) (- (atoiMag s)) (- 9223372036854775808))
      (ite (<= (atoiMag s) 9223372036854775807) (atoiMag s) 9223372036854775807))))
(define-fun itoa ((n Int)) String (ite (>= n 0) (str.from_int n) (str.++ "-" (str.from_int (- n)))))

; KEY=VALUE entries of an environment list: the key is what precedes the first "=", the value all
; that follows it (values may contain "="); an entry without "=" has an empty value.
(define-fun envKey ((e String)) String (ite (str.contains e "=") (str.substr e 0 (str.indexof e "=" 0)) e))
(define-fun envVal ((e String)) String
  (ite (str.contains e "=") (str.substr e (+ (str.indexof e "=" 0) 1) (- (str.len e) (+ (str.indexof e "=" 0) 1))) ""))
; ---- paths and the file system (C16)
(declare-fun isDirAt (Int String) Bool)      ; a directory exists at this path of this file system
(declare-fun fiIsDir (Int) Bool)             ; fs.FileInfo.IsDir
(declare-fun pathJoin2 (String String) String)
(declare-fun pathDepth (String) Int)         ; number of elements below the root
(declare-fun upN (String Int) String)        ; k-fold filepath.Dir
(declare-fun topLevelStmt (Int) Bool)   ; the statement is one of those global type analysis pre-declared (C11)
(declare-fun codeOf (Int) Int)   ; code pointer of a function value (reflect.Value.Pointer)
(declare-fun osExpandOp (String Int) String)   ; os.Expand(s, mapping)
(declare-fun closureAt (Int) Int)              ; the function literal at this source line of the unit's file
(declare-const hostGetenv Int)                 ; os.Getenv (the host environment)
(declare-fun existsAt (Int String) Bool)   ; fs.Stat succeeds on this path of this file system
