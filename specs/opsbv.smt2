; opsbv.smt2 — bit-vector forms for the bitwise and shift operators (C02). The content of an
; integer reflect.Value is the 64-bit pattern Int()/Uint() return: the sign/zero extension of
; its low w bits, w the width of its kind.
(define-fun kindWidthBV ((k Int)) (_ BitVec 64)
  (ite (or (= k 3) (= k 8)) #x0000000000000008 (ite (or (= k 4) (= k 9)) #x0000000000000010
  (ite (or (= k 5) (= k 10)) #x0000000000000020 #x0000000000000040))))
(define-fun wrapKindBV ((k Int) (x (_ BitVec 64))) (_ BitVec 64)
  (ite (= k 3) ((_ sign_extend 56) ((_ extract 7 0) x))
  (ite (= k 4) ((_ sign_extend 48) ((_ extract 15 0) x))
  (ite (= k 5) ((_ sign_extend 32) ((_ extract 31 0) x))
  (ite (= k 8) ((_ zero_extend 56) ((_ extract 7 0) x))
  (ite (= k 9) ((_ zero_extend 48) ((_ extract 15 0) x))
  (ite (= k 10) ((_ zero_extend 32) ((_ extract 31 0) x)) x)))))))
(define-fun inRangeKBV ((k Int) (x (_ BitVec 64))) Bool (= (wrapKindBV k x) x))
; Go spec, shifts: "as if the left operand is shifted n times by 1"; a count >= width gives 0
; (left shift, logical right shift) or all sign bits (arithmetic right shift of a signed operand).
(define-fun shlSpec ((k Int) (a (_ BitVec 64)) (c (_ BitVec 64))) (_ BitVec 64)
  (ite (bvuge c (kindWidthBV k)) #x0000000000000000 (wrapKindBV k (bvshl a c))))
(define-fun shrSpec ((k Int) (a (_ BitVec 64)) (c (_ BitVec 64))) (_ BitVec 64)
  (ite (and (>= k 2) (<= k 6))
    (ite (bvuge c (kindWidthBV k)) (ite (bvslt a #x0000000000000000) #xffffffffffffffff #x0000000000000000) (bvashr a c))
    (ite (bvuge c (kindWidthBV k)) #x0000000000000000 (bvlshr a c))))
(define-fun isNegBV ((x (_ BitVec 64))) Bool (bvslt x #x0000000000000000))
