; consts.smt2 — go/constant vocabulary (T4: go/constant computes exact Go constant arithmetic).
; constant.Kind: Unknown=0 Bool=1 String=2 Int=3 Float=4 Complex=5.
(declare-fun constKind (Int) Int)
(declare-fun constToInt (Int) Int)          ; constant.ToInt
(declare-fun constBinaryOp (Int Int Int) Int)
(declare-fun constUnaryOp (Int Int Int) Int)
(declare-fun constShift (Int Int Int) Int)
(declare-fun rvElem (Int) Int)
(declare-fun rvType (Int) Int)
; ToInt of an Int-kind constant is itself; ToInt yields kind Int exactly when the value is an integer
(assert (forall ((c Int)) (! (=> (= (constKind c) 3) (= (constToInt c) c)) :pattern ((constToInt c)))))
