; consts.smt2 — go/constant vocabulary (T4: go/constant computes exact Go constant arithmetic).
; constant.Kind: Unknown=0 Bool=1 String=2 Int=3 Float=4 Complex=5.
(declare-fun constKind (Int) Int)
(declare-fun constToInt (Int) Int)          ; constant.ToInt
(declare-fun constBinaryOp (Int Int Int) Int)
(declare-fun constUnaryOp (Int Int Int) Int)
(declare-fun constShift (Int Int Int) Int)
(declare-fun rvElem (Int) Int)
(declare-fun rvType (Int) Int)
; ToInt of an Int-kind constant is itself; ToInt yields kind Int exactly when the value is an integer
(assert (forall ((c Int)) (! (=> (= (constKind c) 3) (= (constToInt c) c)) :pattern ((constToInt c)))))
; float / complex / bool / string views (go/constant's own single roundings)
(declare-fun constF32 (Int) Int)        ; constant.Float32Val: the exact value rounded once to float32
(declare-fun constF64 (Int) Int)        ; constant.Float64Val
(declare-fun constToFloat (Int) Int)
(declare-fun constToComplex (Int) Int)
(declare-fun constReal (Int) Int)
(declare-fun constImag (Int) Int)
(declare-fun constBoolVal (Int) Bool)
(declare-fun constStringVal (Int) String)
(declare-fun ccomplex (Int Int) Int)   ; complex(r, i) of two float values
; the dynamic type test x.(constant.Value) on an interface value (as the engine names it)
(declare-fun assertok_go_constant_Value (Int) Bool)
(declare-fun assert_go_constant_Value (Int) Int)
; go/constant: Real and ToFloat are the identity on Int and Float values; a float32 value is a fixed
; point of rounding to float32
(assert (forall ((c Int)) (! (=> (or (= (constKind c) 3) (= (constKind c) 4)) (= (constReal c) c)) :pattern ((constReal c)))))
(assert (forall ((c Int)) (! (=> (= (constKind c) 4) (= (constToFloat c) c)) :pattern ((constToFloat c)))))
(assert (forall ((c Int)) (! (= (constKind (constToFloat c)) (ite (or (= (constKind c) 3) (= (constKind c) 4)) 4 (constKind (constToFloat c)))) :pattern ((constToFloat c)))))
(assert (forall ((x Int)) (! (=> (assertok_go_constant_Value x) (not (= (assert_go_constant_Value x) 0))) :pattern ((assert_go_constant_Value x)))))  ; a successful x.(constant.Value) yields a non-nil interface value
(declare-fun creal (Int) Int)   ; real(c) of a complex value (the engine's builtin)
(declare-fun cimag (Int) Int)   ; imag(c)
(declare-fun constCompare (Int Int Int) Bool)      ; go/constant.Compare(x, op, y)
(declare-fun assertok_github_com_traefik_yaegi_interp_valueInterface (Int) Bool)  ; x.(valueInterface) succeeds: x is a wrapper the interpreter put around a script value
