package main

import (
	"fmt"
	"go/ast"
	"go/types"
)

// Trusted model (T3) of reflect.Value for operator closures: a value is a handle with a kind
// (rvKind) and a content in one heap per sort: RVI integers (as returned by Int()/Uint()), RVF
// floats, RVC complex (both uninterpreted), RVS strings, RVB booleans.
// Set* stores with the truncation of the destination kind; Set copies; ValueOf/Convert allocate.

func (x *Exec) rvSort(which string) (string, Sort) {
	switch which {
	case "I":
		if x.mode == "bv" {
			return "RVI", arraySort(SInt, BV(64))
		}
		return "RVI", arraySort(SInt, SInt)
	case "F":
		return "RVF", arraySort(SInt, SInt)
	case "C":
		return "RVC", arraySort(SInt, SInt)
	case "S":
		return "RVS", arraySort(SInt, SStr)
	case "X":
		return "RVX", arraySort(SInt, SInt)
	}
	return "RVB", arraySort(SInt, SBool)
}

func (x *Exec) rvRead(st *State, which string, rv Term) Term {
	key, s := x.rvSort(which)
	arr := x.heapGet(st, key, s)
	var es Sort
	switch which {
	case "I":
		es = SInt
		if x.mode == "bv" {
			es = BV(64)
		}
	case "S":
		es = SStr
	case "B":
		es = SBool
	default:
		es = SInt
	}
	return Term{selectSimp(arr.S, rv.S), es}
}

func (x *Exec) rvWrite(st *State, which string, rv, v Term) {
	key, s := x.rvSort(which)
	arr := x.heapGet(st, key, s)
	st.heap[key] = Term{"(store " + arr.S + " " + rv.S + " " + v.S + ")", arr.Sort}
}

func rvKindOf(rv Term) Term { return Term{"(rvKind " + rv.S + ")", SInt} }

func (x *Exec) wrapToKind(k Term, v Term) Term {
	if x.mode == "bv" {
		return Term{"(wrapKindBV " + k.S + " " + v.S + ")", BV(64)}
	}
	return Term{"(wrapKind " + k.S + " " + v.S + ")", SInt}
}

func goKind(t types.Type) int64 {
	b, ok := t.Underlying().(*types.Basic)
	if !ok {
		return 0
	}
	switch b.Kind() {
	case types.Bool, types.UntypedBool:
		return 1
	case types.Int, types.UntypedInt:
		return 2
	case types.Int8:
		return 3
	case types.Int16:
		return 4
	case types.Int32, types.UntypedRune:
		return 5
	case types.Int64:
		return 6
	case types.Uint:
		return 7
	case types.Uint8:
		return 8
	case types.Uint16:
		return 9
	case types.Uint32:
		return 10
	case types.Uint64:
		return 11
	case types.Uintptr:
		return 12
	case types.Float32:
		return 13
	case types.Float64, types.UntypedFloat:
		return 14
	case types.Complex64:
		return 15
	case types.Complex128, types.UntypedComplex:
		return 16
	case types.String, types.UntypedString:
		return 24
	}
	return 0
}

func heapOfType(t types.Type) string {
	b, ok := t.Underlying().(*types.Basic)
	if !ok {
		return ""
	}
	switch {
	case b.Info()&types.IsBoolean != 0:
		return "B"
	case b.Info()&types.IsString != 0:
		return "S"
	case b.Info()&types.IsInteger != 0:
		return "I"
	case b.Info()&types.IsFloat != 0:
		return "F"
	case b.Info()&types.IsComplex != 0:
		return "C"
	}
	return ""
}

func init() {
	get := func(which string) libModel {
		return func(x *Exec, st *State, e *ast.CallExpr, a []Value, _ []types.Type) (Value, bool) {
			return x.rvRead(st, which, asTerm(a[0])), true
		}
	}
	// Interface(): the value as an interface — the handle stored in the X content heap (for a value made
	// by ValueOf of a non-basic value this is that value; for others an uninterpreted boxed handle)
	libModels["reflect.Value.Interface"] = get("X")
	libModels["reflect.Value.Int"] = get("I")
	libModels["reflect.Value.Uint"] = get("I")
	libModels["reflect.Value.Float"] = get("F")
	libModels["reflect.Value.Complex"] = get("C")
	libModels["reflect.Value.String"] = get("S")
	libModels["reflect.Value.Bool"] = get("B")
	libModels["reflect.Value.Kind"] = func(x *Exec, st *State, e *ast.CallExpr, a []Value, _ []types.Type) (Value, bool) {
		return rvKindOf(asTerm(a[0])), true
	}
	libModels["reflect.Value.CanAddr"] = func(x *Exec, st *State, e *ast.CallExpr, a []Value, _ []types.Type) (Value, bool) {
		return x.uf("rvCanAddr", SBool, asTerm(a[0])), true
	}
	// go/constant constructors (T4): MakeInt64 / MakeUint64 give the Int constant of that value, MakeBool and
	// MakeString the Bool / String constant (stated as ground facts about the term where it is made);
	// MakeFloat64 and MakeImag are uninterpreted
	for n, uf := range map[string]string{"constant.MakeInt64": "constMakeInt", "constant.MakeUint64": "constMakeInt", "constant.MakeBool": "constMakeBool", "constant.MakeString": "constMakeString", "constant.MakeFloat64": "constMakeFloat", "constant.MakeImag": "constMakeImag"} {
		uf := uf
		libModels[n] = func(x *Exec, st *State, e *ast.CallExpr, a []Value, _ []types.Type) (Value, bool) {
			arg := asTerm(a[0]).S
			t := "(" + uf + " " + arg + ")"
			if !x.underBinder(t) {
				switch uf {
				case "constMakeInt":
					st.assume("(and (= (constKind " + t + ") 3) (= (constInt " + t + ") " + arg + "))")
				case "constMakeBool":
					st.assume("(and (= (constKind " + t + ") 1) (= (constBoolVal " + t + ") " + arg + "))")
				case "constMakeString":
					st.assume("(and (= (constKind " + t + ") 2) (= (constStringVal " + t + ") " + arg + "))")
				}
			}
			return Term{t, SInt}, true
		}
	}
	libModels["reflect.Value.IsValid"] = func(x *Exec, st *State, e *ast.CallExpr, a []Value, _ []types.Type) (Value, bool) {
		return x.uf("rvValid", SBool, asTerm(a[0])), true
	}
	// reflect's own convertibility / assignability / comparability relations on types: uninterpreted
	libModels["reflect.Type.ConvertibleTo"] = func(x *Exec, st *State, e *ast.CallExpr, a []Value, _ []types.Type) (Value, bool) {
		return Term{"(rtConvertibleTo " + asTerm(a[0]).S + " " + asTerm(a[1]).S + ")", SBool}, true
	}
	libModels["reflect.Type.AssignableTo"] = func(x *Exec, st *State, e *ast.CallExpr, a []Value, _ []types.Type) (Value, bool) {
		return Term{"(rtAssignableTo " + asTerm(a[0]).S + " " + asTerm(a[1]).S + ")", SBool}, true
	}
	libModels["reflect.Type.Comparable"] = func(x *Exec, st *State, e *ast.CallExpr, a []Value, _ []types.Type) (Value, bool) {
		return Term{"(rtComparable " + asTerm(a[0]).S + ")", SBool}, true
	}
	libModels["reflect.Type.Kind"] = func(x *Exec, st *State, e *ast.CallExpr, a []Value, _ []types.Type) (Value, bool) {
		return Term{"(rtKind " + asTerm(a[0]).S + ")", SInt}, true
	}
	for _, m := range []string{"Len", "NumIn", "NumOut", "NumField", "NumMethod"} {
		m := m
		if _, ok := libModels["reflect.Type."+m]; !ok {
			libModels["reflect.Type."+m] = func(x *Exec, st *State, e *ast.CallExpr, a []Value, _ []types.Type) (Value, bool) {
				return x.uf("rt"+m, SInt, asTerm(a[0])), true
			}
		}
	}
	for _, m := range []string{"Elem", "Key"} {
		m := m
		if _, ok := libModels["reflect.Type."+m]; !ok {
			libModels["reflect.Type."+m] = func(x *Exec, st *State, e *ast.CallExpr, a []Value, _ []types.Type) (Value, bool) {
				return x.uf("rt"+m, SInt, asTerm(a[0])), true
			}
		}
	}
	libModels["big.Float.Prec"] = func(x *Exec, st *State, e *ast.CallExpr, a []Value, _ []types.Type) (Value, bool) {
		t := x.uf("lib_bigFloat_Prec", SInt, asTerm(a[0]))
		if !x.underBinder(t.S) {
			x.declare("(assert (and (<= 0 "+t.S+") (<= "+t.S+" 4294967295)))", "ax_prec:"+t.S)
		}
		return t, true
	}
	libModels["fs.DirEntry.Name"] = func(x *Exec, st *State, e *ast.CallExpr, a []Value, _ []types.Type) (Value, bool) {
		return x.uf("lib_DirEntry_Name", SStr, asTerm(a[0])), true
	}
	libModels["reflect.Type.Field"] = func(x *Exec, st *State, e *ast.CallExpr, a []Value, _ []types.Type) (Value, bool) {
		// the i-th field descriptor of a struct type: a fixed location per (type, index)
		t := x.uf("rtField", SInt, asTerm(a[0]), asTerm(a[1]))
		if !x.underBinder(t.S) {
			x.declare("(assert (> "+t.S+" 0))", "ax_rtfield:"+t.S)
		}
		return t, true
	}
	libModels["reflect.Type.Implements"] = func(x *Exec, st *State, e *ast.CallExpr, a []Value, _ []types.Type) (Value, bool) {
		return x.uf("rtImplements", SBool, asTerm(a[0]), asTerm(a[1])), true
	}
	libModels["reflect.Type.ChanDir"] = func(x *Exec, st *State, e *ast.CallExpr, a []Value, _ []types.Type) (Value, bool) {
		return x.uf("rtChanDir", SInt, asTerm(a[0])), true
	}
	setInt := func(x *Exec, st *State, e *ast.CallExpr, a []Value, _ []types.Type) (Value, bool) {
		rv := asTerm(a[0])
		x.rvWrite(st, "I", rv, x.wrapToKind(rvKindOf(rv), asTerm(a[1])))
		return intLit(0), true
	}
	libModels["reflect.Value.SetInt"] = setInt
	libModels["reflect.Value.SetUint"] = setInt
	libModels["reflect.Value.SetFloat"] = func(x *Exec, st *State, e *ast.CallExpr, a []Value, _ []types.Type) (Value, bool) {
		rv := asTerm(a[0])
		x.rvWrite(st, "F", rv, Term{"(roundKind " + rvKindOf(rv).S + " " + asTerm(a[1]).S + ")", SInt})
		return intLit(0), true
	}
	libModels["reflect.Value.SetComplex"] = func(x *Exec, st *State, e *ast.CallExpr, a []Value, _ []types.Type) (Value, bool) {
		rv := asTerm(a[0])
		x.rvWrite(st, "C", rv, x.uf("croundKind", SInt, rvKindOf(rv), asTerm(a[1])))
		return intLit(0), true
	}
	libModels["reflect.Value.SetString"] = func(x *Exec, st *State, e *ast.CallExpr, a []Value, _ []types.Type) (Value, bool) {
		x.rvWrite(st, "S", asTerm(a[0]), asTerm(a[1]))
		return intLit(0), true
	}
	libModels["reflect.Value.SetBool"] = func(x *Exec, st *State, e *ast.CallExpr, a []Value, _ []types.Type) (Value, bool) {
		x.rvWrite(st, "B", asTerm(a[0]), asTerm(a[1]))
		return intLit(0), true
	}
	libModels["reflect.Value.Set"] = func(x *Exec, st *State, e *ast.CallExpr, a []Value, _ []types.Type) (Value, bool) {
		d, s := asTerm(a[0]), asTerm(a[1])
		for _, w := range []string{"I", "F", "C", "S", "B", "X"} {
			x.rvWrite(st, w, d, x.rvRead(st, w, s))
		}
		return intLit(0), true
	}
	libModels["reflect.ValueOf"] = func(x *Exec, st *State, e *ast.CallExpr, a []Value, at []types.Type) (Value, bool) {
		if len(at) != 1 || at[0] == nil {
			return nil, false
		}
		h := heapOfType(at[0])
		if h == "" {
			// a non-basic value (interface such as constant.Value): its handle is the content
			rv := x.newRef(st, "rvx")
			x.rvWrite(st, "X", rv, asTerm(a[0]))
			st.names["$rvheap:"+rv.S] = "X"
			return rv, true
		}
		rv := x.newRef(st, "rv")
		st.assume("(= " + rvKindOf(rv).S + " " + intLit(goKind(at[0])).S + ")")
		st.assume(x.uf("rvValid", SBool, rv).S) // ValueOf of a basic value is a valid Value
		x.rvWrite(st, h, rv, asTerm(a[0]))
		st.names["$rvheap:"+rv.S] = h
		return rv, true
	}
	// slicing and length of a reflect.Value: reflect's own operations, uninterpreted (the obligation is
	// that the closure delegates to them with the operands of the expression, in order)
	// more of reflect's own operations, uninterpreted: what is proved about their callers is that they are
	// applied to the right operands in the right order
	for n, uf := range map[string]string{"reflect.Value.Cap": "rvCap", "reflect.Value.Addr": "rvAddrOp", "reflect.AppendSlice": "rvAppendSliceOp", "reflect.Copy": "rvCopyOp", "reflect.Value.MapIndex": "rvMapIndexOp", "reflect.Value.Index": "rvIndexOp", "reflect.MakeSlice": "rvMakeSliceOp", "reflect.MakeMapWithSize": "rvMakeMapOp", "reflect.MakeMap": "rvMakeMap1Op", "reflect.MakeChan": "rvMakeChanOp", "reflect.PtrTo": "rtPtrTo", "reflect.PointerTo": "rtPtrTo"} {
		uf := uf
		libModels[n] = func(x *Exec, st *State, e *ast.CallExpr, a []Value, _ []types.Type) (Value, bool) {
			if e.Ellipsis.IsValid() {
				return nil, false
			}
			var ts []Term
			for _, v := range a {
				ts = append(ts, asTerm(v))
			}
			return x.uf(uf, SInt, ts...), true
		}
	}
	// reflect.Append(s, x...) / reflect.Append(s, a, b): ONE append of all the values (reflect grows the slice
	// once, to the final length): spread form as a function of the slice and the argument vector, individual
	// arguments as a left fold
	libModels["reflect.Append"] = func(x *Exec, st *State, e *ast.CallExpr, a []Value, _ []types.Type) (Value, bool) {
		if e.Ellipsis.IsValid() && len(a) == 2 {
			return x.uf("rvAppendSpreadOp", SInt, asTerm(a[0]), asTerm(a[1])), true
		}
		if e.Ellipsis.IsValid() {
			return nil, false
		}
		t := asTerm(a[0])
		for _, v := range a[1:] {
			t = x.uf("rvAppend1Op", SInt, t, asTerm(v))
		}
		return t, true
	}
	// SetMapIndex(m, k, v): the map content of m becomes rvMapSet(content, k, v)
	libModels["reflect.Value.SetMapIndex"] = func(x *Exec, st *State, e *ast.CallExpr, a []Value, _ []types.Type) (Value, bool) {
		m, k, v := asTerm(a[0]), asTerm(a[1]), asTerm(a[2])
		x.rvWrite(st, "X", m, x.uf("rvMapSet", SInt, x.rvRead(st, "X", m), k, v))
		return intLit(0), true
	}
	// reflect.TypeOf(x): the type descriptor of x's static type when that type is basic (its kind is known)
	libModels["reflect.TypeOf"] = func(x *Exec, st *State, e *ast.CallExpr, a []Value, at []types.Type) (Value, bool) {
		if len(at) != 1 || at[0] == nil {
			return nil, false
		}
		b, ok := at[0].Underlying().(*types.Basic)
		if !ok || goKind(at[0]) == 0 {
			return nil, false
		}
		t := x.uf("rtOfBasic_"+sanitize(b.Name()), SInt)
		if !x.underBinder(t.S) {
			x.declare("(assert (= (rtKind "+t.S+") "+intLit(goKind(at[0])).S+"))", "ax_rtbasic:"+t.S)
			x.declare("(assert (> "+t.S+" 0))", "ax_rtbasic_nn:"+t.S)
		}
		return t, true
	}
	// Pointer() of a function value: its code pointer (closures of one literal share it)
	libModels["reflect.Value.Pointer"] = func(x *Exec, st *State, e *ast.CallExpr, a []Value, _ []types.Type) (Value, bool) {
		return Term{"(codeOf " + x.rvRead(st, "X", asTerm(a[0])).S + ")", SInt}, true
	}
	libModels["reflect.Value.Len"] = func(x *Exec, st *State, e *ast.CallExpr, a []Value, _ []types.Type) (Value, bool) {
		return x.uf("rvLen", SInt, asTerm(a[0])), true
	}
	libModels["reflect.Value.Slice"] = func(x *Exec, st *State, e *ast.CallExpr, a []Value, _ []types.Type) (Value, bool) {
		return x.uf("rvSliceOp", SInt, asTerm(a[0]), asTerm(a[1]), asTerm(a[2])), true
	}
	libModels["reflect.Value.Slice3"] = func(x *Exec, st *State, e *ast.CallExpr, a []Value, _ []types.Type) (Value, bool) {
		return x.uf("rvSlice3Op", SInt, asTerm(a[0]), asTerm(a[1]), asTerm(a[2]), asTerm(a[3])), true
	}
	libModels["reflect.New"] = func(x *Exec, st *State, e *ast.CallExpr, a []Value, _ []types.Type) (Value, bool) {
		// a pointer value whose Elem is a fresh, zeroed, settable value of the type
		p := x.newRef(st, "rvp")
		el := x.newRef(st, "rve")
		st.assume("(= (rvElem " + p.S + ") " + el.S + ")")
		st.assume("(= " + rvKindOf(el).S + " (rtKind " + asTerm(a[0]).S + "))")
		x.rvWrite(st, "I", el, zeroOf(func() Sort {
			if x.mode == "bv" {
				return BV(64)
			}
			return SInt
		}()))
		x.rvWrite(st, "S", el, strLit(""))
		x.rvWrite(st, "B", el, boolLit(false))
		return p, true
	}
	libModels["reflect.Zero"] = func(x *Exec, st *State, e *ast.CallExpr, a []Value, _ []types.Type) (Value, bool) {
		// a fresh value of the type holding its zero value (reference content: the type's nil / zero, rvZeroX)
		el := x.newRef(st, "rvz")
		st.assume("(= " + rvKindOf(el).S + " (rtKind " + asTerm(a[0]).S + "))")
		x.rvWrite(st, "I", el, zeroOf(func() Sort {
			if x.mode == "bv" {
				return BV(64)
			}
			return SInt
		}()))
		x.rvWrite(st, "S", el, strLit(""))
		x.rvWrite(st, "B", el, boolLit(false))
		x.rvWrite(st, "X", el, x.uf("rvZeroX", SInt, asTerm(a[0])))
		return el, true
	}
	libModels["reflect.Value.Elem"] = func(x *Exec, st *State, e *ast.CallExpr, a []Value, _ []types.Type) (Value, bool) {
		return Term{"(rvElem " + asTerm(a[0]).S + ")", SInt}, true
	}
	libModels["reflect.Value.Type"] = func(x *Exec, st *State, e *ast.CallExpr, a []Value, _ []types.Type) (Value, bool) {
		return Term{"(rvType " + asTerm(a[0]).S + ")", SInt}, true
	}
	libModels["reflect.Value.Convert"] = func(x *Exec, st *State, e *ast.CallExpr, a []Value, _ []types.Type) (Value, bool) {
		src, typ := asTerm(a[0]), asTerm(a[1])
		rv := x.newRef(st, "rvc")
		k := Term{"(rtKind " + typ.S + ")", SInt}
		st.assume("(= " + rvKindOf(rv).S + " " + k.S + ")")
		h, _ := st.names["$rvheap:"+src.S].(string)
		// reflect's convertibility between basic kinds (Value.Convert panics otherwise)
		kin := func(lo, hi int) string { return fmt.Sprintf("(and (<= %d %s) (<= %s %d))", lo, k.S, k.S, hi) }
		okc := ""
		switch h {
		case "I":
			okc = "(or " + kin(2, 14) + " (= " + k.S + " 24))"
		case "F":
			okc = kin(2, 14)
		case "C":
			okc = kin(15, 16)
		case "S":
			okc = "(or (= " + k.S + " 24) (= " + k.S + " 23))"
		case "B":
			okc = "(= " + k.S + " 1)"
		}
		if okc != "" && !x.contract {
			okc = "(or " + okc + " (= " + k.S + " 20))" // any value converts to an interface type it implements
			addPendingPanic(st, "(not "+okc+")", "reflect.Value.Convert: value cannot be converted to the type")
		}
		switch h {
		case "I":
			x.rvWrite(st, "I", rv, x.wrapToKind(k, x.rvRead(st, "I", src)))
		case "F":
			x.rvWrite(st, "F", rv, Term{"(roundKind " + k.S + " " + x.rvRead(st, "F", src).S + ")", SInt})
		case "C":
			x.rvWrite(st, "C", rv, x.uf("croundKind", SInt, k, x.rvRead(st, "C", src)))
		case "S":
			x.rvWrite(st, "S", rv, x.rvRead(st, "S", src))
		case "B":
			x.rvWrite(st, "B", rv, x.rvRead(st, "B", src))
		default:
			// a source whose kind is not known in this unit: reflect's conversion as an uninterpreted
			// function of the value and the type (the obligation is that the code delegates to it with
			// the right operands)
			cv := Term{"(rvConvertOp " + src.S + " " + typ.S + ")", SInt}
			st.assume("(= " + rvKindOf(cv).S + " " + k.S + ")")
			return cv, true
		}
		return rv, true
	}
}
