package main

import (
	"sort"
	"fmt"
	"go/ast"
	"go/parser"
	"go/types"
	"math/big"
	"strings"

	"golang.org/x/tools/go/packages"
)

type bigInt = big.Int

var bigOne = big.NewInt(1)

// UnitResult is what verifying one function against its contract produced.
type UnitResult struct {
	Unit     string
	Prop     string
	Obls     []*Obligation
	Err      string // engine error (exit 2)
	Assumes  []string
	Paths    int
	Contract *Contract
}

func numberLoops(body *ast.BlockStmt) map[ast.Stmt]int {
	m := map[ast.Stmt]int{}
	n := 0
	ast.Inspect(body, func(nd ast.Node) bool {
		switch s := nd.(type) {
		case *ast.FuncLit:
			return false
		case *ast.ForStmt:
			n++
			m[s] = n
		case *ast.RangeStmt:
			n++
			m[s] = n
		}
		return true
	})
	return m
}

// VerifyFunc generates the obligations of one function declaration against its contract.
func VerifyFunc(L *Loaded, db *ContractDB, pkg *packages.Package, fd *ast.FuncDecl, c *Contract, prop string) (res *UnitResult) {
	return VerifyUnit(L, db, pkg, fd, nil, "", c, prop)
}

// VerifyUnit verifies a function declaration, or (lit != nil) one function literal of it whose
// captured variables are arbitrary values of their types.
func VerifyUnit(L *Loaded, db *ContractDB, pkg *packages.Package, fd *ast.FuncDecl, lit *ast.FuncLit, suffix string, c *Contract, prop string) (res *UnitResult) {
	unit := pkg.Types.Name() + "." + c.Key + suffix
	res = &UnitResult{Unit: unit, Prop: prop, Contract: c}
	cases := c.Cases
	if len(cases) == 0 {
		cases = []Clause{{}}
	}
	for _, cs := range cases {
		x := &Exec{L: L, pkg: pkg, db: db, unit: prop + "/" + unit, prop: prop, mode: c.Ints, declared: map[string]bool{}, obls: map[string]*Obligation{}, con: c, caseName: cs.Label}
		for name := range L.specs {
			x.declared[name] = true // declared by the spec prelude
		}
		func() {
			defer func() {
				if r := recover(); r != nil {
					if e, ok := r.(engineErr); ok {
						res.Err = e.msg
						return
					}
					panic(r)
				}
			}()
			x.openCaptured = lit != nil
			if lit != nil {
				x.litPos = lit.Body.Lbrace + 1
				x.runBody(nil, lit.Type, lit.Body, c, cs)
			} else {
				x.runBody(fd.Recv, fd.Type, fd.Body, c, cs)
			}
		}()
		// a loop block of the contract that no executed loop picked up is a contract that does not fit the
		// code (wrong ordinal after an edit): its clauses would silently check nothing
		if res.Err == "" {
			for k := range c.Loops {
				if !x.loopSeen[k] {
					res.Err = fmt.Sprintf("contract gives clauses for loop %d, but no such loop was reached in %s", k, unit)
				}
			}
			for k := range c.ExecLoops {
				if !x.execLoopSeen[k] {
					res.Err = fmt.Sprintf("contract gives clauses for loop %d of the exec literals, but no literal of %s has such a loop", k, unit)
				}
			}
		}
		for _, n := range x.oblOrder {
			res.Obls = append(res.Obls, x.obls[n])
		}
		res.Assumes = append(res.Assumes, x.assumes...)
		res.Paths += x.paths
		if res.Err != "" {
			return
		}
	}
	return
}

func (x *Exec) runBody(recv *ast.FieldList, ftype *ast.FuncType, body *ast.BlockStmt, c *Contract, cs Clause) {
	info := x.info()
	st := newState()
	x.loopOrd = numberLoops(body)
	x.conScope = map[string]types.Object{}
	var realParams []types.Object
	if recv != nil && len(recv.List) > 0 {
		if len(recv.List[0].Names) > 0 {
			realParams = append(realParams, info.Defs[recv.List[0].Names[0]])
		} else {
			realParams = append(realParams, nil)
		}
	}
	for _, f := range ftype.Params.List {
		if len(f.Names) == 0 {
			realParams = append(realParams, nil)
		}
		for _, n := range f.Names {
			realParams = append(realParams, info.Defs[n])
		}
	}
	if len(c.Params) != len(realParams) {
		engineFail("contract %s names %d parameters, the function has %d", c.Key, len(c.Params), len(realParams))
	}
	replayVals := map[string]string{}
	var replayAssumes []string
	for i, o := range realParams {
		if o == nil {
			continue
		}
		var v Value
		if x.isLocStruct(o.Type()) {
			r := x.declConst("p_"+c.Params[i], SInt)
			st.assume("(> " + r.S + " 0)")
			v = r
		} else {
			t := x.declConst("p_"+c.Params[i], x.sortOf(o.Type()))
			x.rangeAssume(st, t, o.Type())
			if _, isPtr := o.Type().Underlying().(*types.Pointer); isPtr {
				st.assume("(>= " + t.S + " 0)")
			}
			v = t
		}
		st.env[o] = v
		x.conScope[c.Params[i]] = o
		x.conScope[o.Name()] = o
		replayVals[c.Params[i]] = asTerm(v).S
	}
	// locals and named results are visible to loop invariants by name (first definition wins)
	collect := func(n ast.Node) bool {
		if _, ok := n.(*ast.FuncLit); ok {
			return false
		}
		if id, ok := n.(*ast.Ident); ok {
			if o := info.Defs[id]; o != nil {
				if _, isVar := o.(*types.Var); isVar && x.conScope[id.Name] == nil {
					x.conScope[id.Name] = o
				}
			}
		}
		return true
	}
	ast.Inspect(ftype, collect)
	ast.Inspect(body, collect)
	x.retObjs = nil
	var resTypes []types.Type
	if ftype.Results != nil {
		for _, f := range ftype.Results.List {
			t := info.TypeOf(f.Type)
			if len(f.Names) == 0 {
				resTypes = append(resTypes, t)
			}
			for _, n := range f.Names {
				o := info.Defs[n]
				x.retObjs = append(x.retObjs, o)
				st.env[o] = x.zeroValue(st, o.Type())
				resTypes = append(resTypes, t)
			}
		}
	}
	if len(c.Results) != len(resTypes) {
		engineFail("contract %s names %d results, the function has %d", c.Key, len(c.Results), len(resTypes))
	}
	if c.Opts["ghost-calls"] == "true" {
		// ghost trace of reflect.Value.Call applications: callCount, callSeq[k] = callee value
		st.names["callCount"] = intLit(0)
		st.names["callSeq"] = Term{"((as const (Array Int Int)) 0)", arraySort(SInt, SInt)}
	}
	if c.Opts["trace-calls"] != "" {
		st.names["tracedCount"] = intLit(0)
		st.names["tracedSeq"] = Term{"((as const (Array Int Int)) 0)", arraySort(SInt, SInt)}
		if t := tracedArgType(body, info, c.Opts["trace-calls"]); t != nil {
			st.names["$type:tracedArg"] = t
		}
	}
	if c.Opts["ghost-select"] == "true" {
		st.names["selCalled"] = boolLit(false)
		st.names["selCases"] = intLit(0)
		for _, imp := range x.pkg.Types.Imports() {
			if imp.Path() == "reflect" {
				st.names["$type:selCases"] = types.NewSlice(imp.Scope().Lookup("SelectCase").Type())
			}
		}
		st.names["selChosen"] = intLit(0)
	}
	// preconditions
	x.contract = true
	for _, l := range c.Lets {
		v, t := x.eval(l.Expr, st)
		if tv, ok := v.(Term); ok {
			// name the abbreviation so that the VC shares it instead of repeating it
			k := x.declConst("let_"+sanitize(l.Label), tv.Sort)
			x.declare("(assert (= "+k.S+" "+tv.S+"))", "letdef_"+l.Label)
			v = k
		}
		st.names[l.Label] = v
		if t != nil {
			st.names["$type:"+l.Label] = t
		}
	}
	for _, r := range c.Requires {
		if r.Prop == "assume" {
			x.noteAssume("assumed precondition of " + c.Key + " (not checked at call sites): " + r.Src)
		} else if r.Prop != "" && !propIn(r.Prop, x.prop) {
			continue
		} else if strings.Contains(r.Prop, "!") {
			// [Cnn!]: an obligation of the callers only; the body is verified without it
			continue
		}
		st.assume(x.evalBool(r.Expr, st))
	}
	if cs.Expr != nil {
		st.assume(x.evalBool(cs.Expr, st))
	}
	var allow []string
	for _, p := range c.Panics {
		allow = append(allow, x.evalBool(p.Expr, st))
	}
	x.contract = false
	if len(allow) > 0 {
		x.allowPanic = or(allow...)
	}
	pre := st.clone()
	st.old = pre
	// terms of the replay template's placeholders, evaluated in the pre-state
	if len(c.Replay) > 0 {
		x.contract = true
		tmp := pre.clone()
		for _, l := range c.Replay {
			if strings.HasPrefix(l, "assume ") {
				e, err := parser.ParseExpr(rewriteImplies(strings.TrimPrefix(l, "assume ")))
				if err != nil {
					engineFail("replay assume: %v", err)
				}
				replayAssumes = append(replayAssumes, x.evalBool(e, tmp))
				continue
			}
			for _, m := range placeholderRx.FindAllStringSubmatch(l, -1) {
				name := m[1]
				if i := strings.Index(name, ":"); i > 0 {
					name = name[i+1:]
				}
				if _, ok := replayVals[name]; ok {
					continue
				}
				e, err := parser.ParseExpr(name)
				if err != nil {
					engineFail("replay placeholder %q: %v", name, err)
				}
				replayVals[name] = x.evalT(e, tmp).S
			}
		}
		replayVals["$SE_String"] = x.heapGet(tmp, x.seKey(SStr), arraySort(SInt, arraySort(SInt, SStr))).S
		x.contract = false
	}
	outs := x.execBlock(body.List, st)
	x.paths = len(outs)
	var coverPCs []string
	for _, o := range outs {
		switch o.out {
		case outPanic:
			phi := "false"
			if x.allowPanic != "" {
				phi = x.allowPanic
			}
			x.oblige(o, "safe", "no-panic@"+o.note, phi, "")
			coverPCs = append(coverPCs, o.pcTerm())
			o.old = pre
			for i, po := range realParams {
				if po != nil {
					o.names[c.Params[i]] = pre.env[po]
					o.names["$type:"+c.Params[i]] = po.Type()
				}
			}
			x.checkExits(c, o, "panic")
			continue
		case outBreak, outContinue:
			if o.label == "" && (strings.HasPrefix(c.LitSel, "case:") || strings.HasPrefix(c.LitSel, "if:") || strings.HasPrefix(c.LitSel, "for:")) && (o.out == outBreak || !strings.HasPrefix(c.LitSel, "case:")) {
				o.out = outNormal // break out of the switch whose clause is the unit
				break
			}
			engineFail("break/continue escaped the function body")
		}
		rets := o.rets
		if o.out == outNormal {
			rets = nil
			for _, ro := range x.retObjs {
				rets = append(rets, o.env[ro])
			}
		}
		if len(c.Results) == 0 && (strings.HasPrefix(c.LitSel, "case:") || strings.HasPrefix(c.LitSel, "if:") || strings.HasPrefix(c.LitSel, "for:")) {
			rets = nil // a block unit that leaves through a return of the enclosing function: its values are not named
		}
		if len(rets) != len(c.Results) {
			engineFail("function %s returns %d values on some path, contract names %d", c.Key, len(rets), len(c.Results))
		}
		for i, n := range c.Results {
			o.names[n] = rets[i]
			o.names["$type:"+n] = resTypes[i]
		}
		o.old = pre
		// parameters in postconditions denote their entry values
		for i, po := range realParams {
			if po != nil {
				o.names[c.Params[i]] = pre.env[po]
				o.names["$type:"+c.Params[i]] = po.Type()
			}
		}
		coverPCs = append(coverPCs, o.pcTerm())
		x.contract = true
		for i, en := range c.Ensures {
			lab := en.Label
			if lab == "" {
				lab = fmt.Sprintf("ensures%d", i+1)
			}
			if strings.HasPrefix(en.Prop, "local:") {
				// the clause speaks of locals of the unit: it applies to the exits at which all of them exist
				missing := false
				for name := range localTagsOf(en.Prop) {
					if lo := x.conScope[name]; lo == nil || o.env[lo] == nil {
						missing = true
					}
				}
				if missing {
					continue
				}
			}
			x.localTags = localTagsOf(en.Prop)
			phi := x.evalBool(en.Expr, o)
			x.localTags = nil
			x.contract = false
			ob := x.oblige(o, "post", lab, phi, en.Src)
			if en.Prop != "" && !strings.HasPrefix(en.Prop, "local:") {
				ob.Prop = en.Prop
			}
			x.contract = true
		}
		if c.HasMod && !c.Trusted {
			x.checkFrame(c, o)
		}
		x.checkExits(c, o, "return")
		if len(c.Completes) > 0 && o.names["$execInstalled"] != true {
			for i, cl := range c.Completes {
				lab := cl.Label
				if lab == "" {
					lab = fmt.Sprintf("completes%d", i+1)
				}
				x.contract = true
				phi := x.evalBool(cl.Expr, o)
				x.contract = false
				x.oblige(o, "post", "complete:"+lab, not(phi), cl.Src)
			}
		}
		for i, cn := range c.Canaries {
			lab := cn.Label
			if lab == "" {
				lab = fmt.Sprintf("canary%d", i+1)
			}
			if strings.HasPrefix(cn.Prop, "local:") {
				// the clause speaks of locals of the unit: it applies to the exits at which all of them exist
				missing := false
				for name := range localTagsOf(cn.Prop) {
					if lo := x.conScope[name]; lo == nil || o.env[lo] == nil {
						missing = true
					}
				}
				if missing {
					continue
				}
			}
			x.localTags = localTagsOf(cn.Prop)
			phi := x.evalBool(cn.Expr, o)
			x.localTags = nil
			x.contract = false
			ob := x.oblige(o, "canary", lab, phi, cn.Src)
			ob.MustFail = true
			x.contract = true
		}
		x.contract = false
	}
	// a postcondition that no normal exit reaches (the function always panics: osExit, logFatal) holds
	// vacuously; it is recorded all the same, so that the recorded baseline names it and a change that
	// opens a normal exit on which it fails is a violation of a claimed obligation
	for i, en := range c.Ensures {
		if en.Prop != "" && en.Prop != x.prop {
			continue // tagged: a local, a path or another property; only plain clauses get the vacuous form
		}
		lab := en.Label
		if lab == "" {
			lab = fmt.Sprintf("ensures%d", i+1)
		}
		name := x.unit + "/post:" + lab
		if x.caseName != "" {
			name += "[" + x.caseName + "]"
		}
		if x.obls[name] == nil {
			ob := &Obligation{Name: name, Prop: x.prop, Unit: x.unit, Kind: "post", Src: en.Src + "  (no normal exit reaches this clause)", x: x, Case: x.caseName}
			ob.disjuncts = []string{"false"}
			ob.decls = len(x.decls)
			x.obls[name] = ob
			x.oblOrder = append(x.oblOrder, name)
		}
	}
	if c.Opts["apply-guard"] != "" {
		// no function value is applied in the unit: the guard holds vacuously, and is recorded
		name := x.unit + "/pre:apply-guard"
		if x.caseName != "" {
			name += "[" + x.caseName + "]"
		}
		if x.obls[name] == nil {
			ob := &Obligation{Name: name, Prop: x.prop, Unit: x.unit, Kind: "pre", Src: c.Opts["apply-guard"] + "  (no function value is applied in the unit)", x: x, Case: x.caseName}
			ob.disjuncts = []string{"false"}
			ob.decls = len(x.decls)
			x.obls[name] = ob
			x.oblOrder = append(x.oblOrder, name)
		}
	}
	// reachability (vacuity guard): some path must be feasible under requires + case
	cov := &Obligation{Name: x.unit + "/cover:reachable", Prop: x.prop, Unit: x.unit, Kind: "cover", x: x, Cover: true, Case: x.caseName}
	if x.caseName != "" {
		cov.Name += "[" + x.caseName + "]"
	}
	cov.disjuncts = coverPCs
	if len(coverPCs) == 0 {
		cov.disjuncts = []string{"false"}
	}
	cov.decls = len(x.decls)
	x.obls[cov.Name] = cov
	x.oblOrder = append(x.oblOrder, cov.Name)
	// replay values
	if len(c.Replay) > 0 {
		rs := &ReplaySpec{Lines: c.Replay, Vals: replayVals, Assumes: replayAssumes}
		for _, n := range x.oblOrder {
			x.obls[n].replay = rs
		}
	}
}

func describeObl(o *Obligation) string {
	return fmt.Sprintf("%s %s", o.Name, strings.TrimSpace(o.Src))
}

// checkExits: clauses that must hold however the unit is left (return or panic).
func (x *Exec) checkExits(c *Contract, o *State, how string) {
	save := x.saveContractCtx()
	defer x.restoreContractCtx(save)
	if c.Opts["locks"] == "track" {
		// every lock the activation took is released on every way out (a frame mutex left locked blocks
		// the next user of the frame for ever)
		held, _ := o.names["$locks"].([]heldLock)
		if how == "panic" && strings.HasSuffix(o.note, " panics") {
			// a panic propagating out of a callee: what it leaves locked is the callee-panic finding of the
			// unit, not a second one; explicit returns and panic statements are what this obligation is about
			held = nil
		}
		for _, h := range held {
			x.contract = false
			x.oblige(o, "lock", "released-at-exit["+h.text+"]/"+how, "false", "every lock taken is released on every exit: "+h.text+" is still held")
		}
	}
	o.names["panicking"] = boolLit(how == "panic")
	if _, ok := o.names["recoverResult"]; !ok {
		o.names["recoverResult"] = intLit(0)
	}
	for i, en := range c.Exits {
		lab := en.Label
		if lab == "" {
			lab = fmt.Sprintf("exits%d", i+1)
		}
		x.contract = true
		phi := x.evalBool(en.Expr, o)
		x.contract = false
		ob := x.oblige(o, "exit", lab+"/"+how, phi, en.Src)
		if en.Prop != "" {
			ob.Prop = en.Prop
		}
	}
}

// verifyInlineLit verifies a function literal at the point of the generator where it is created:
// its captured variables are exactly the generator's symbolic store on this path.
func (x *Exec) verifyInlineLit(lit *ast.FuncLit, st *State, params, results []string, requires, ensures []Clause, kind string) {
	info := x.info()
	ls := st.clone()
	ls.out = outNormal
	path := strings.Join(st.trace, "/")
	var pobjs []types.Object
	for _, f := range lit.Type.Params.List {
		if len(f.Names) == 0 {
			pobjs = append(pobjs, nil)
		}
		for _, n := range f.Names {
			pobjs = append(pobjs, info.Defs[n])
		}
	}
	if len(params) != len(pobjs) {
		engineFail("%s: literal at %s has %d parameters, the contract names %d", x.unit, path, len(pobjs), len(params))
	}
	x.nlit++
	savePos := x.inlineLitPos
	x.inlineLitPos = lit.Body.Lbrace + 1
	defer func() { x.inlineLitPos = savePos }()
	saveNames := map[string]Value{}
	for i, o := range pobjs {
		if o == nil {
			continue
		}
		v := x.declConst(fmt.Sprintf("lit%d_%s", x.nlit, params[i]), x.sortOf(o.Type()))
		x.rangeAssume(ls, v, o.Type())
		if _, isPtr := o.Type().Underlying().(*types.Pointer); isPtr {
			ls.assume("(> " + v.S + " 0)")
		}
		ls.env[o] = v
		saveNames[params[i]] = v
		ls.names[params[i]] = v
		ls.names["$type:"+params[i]] = o.Type()
	}
	saveCtx := x.saveContractCtx()
	x.contract = true
	for _, r := range requires {
		ls.assume(x.evalBool(r.Expr, ls))
	}
	x.restoreContractCtx(saveCtx)
	pre := ls.clone()
	ls.old = pre
	saveRet, saveLoops, saveDepth := x.retObjs, x.loopOrd, x.litDepth
	x.retObjs = nil
	x.loopOrd = nil
	saveConLoops, saveSeen := x.con.Loops, x.loopSeen
	if len(x.con.ExecLoops) > 0 {
		// loop clauses for the literal's own loops
		x.loopOrd = numberLoops(lit.Body)
		x.con.Loops = x.con.ExecLoops
		x.loopSeen = map[int]bool{}
	}
	x.litDepth++
	outs := x.execBlock(lit.Body.List, ls)
	if len(x.con.ExecLoops) > 0 {
		for k := range x.loopSeen {
			if x.execLoopSeen == nil {
				x.execLoopSeen = map[int]bool{}
			}
			x.execLoopSeen[k] = true
		}
	}
	x.con.Loops, x.loopSeen = saveConLoops, saveSeen
	x.retObjs, x.loopOrd, x.litDepth = saveRet, saveLoops, saveDepth
	var resTypes []types.Type
	if lit.Type.Results != nil {
		for _, f := range lit.Type.Results.List {
			n := len(f.Names)
			if n == 0 {
				n = 1
			}
			for i := 0; i < n; i++ {
				resTypes = append(resTypes, info.TypeOf(f.Type))
			}
		}
	}
	saveUnit := x.unit
	x.unit = saveUnit + "/" + path
	defer func() { x.unit = saveUnit }()
	for _, o := range outs {
		if o.out == outPanic {
			phi := "false"
			if x.allowPanic != "" {
				phi = x.allowPanic
			}
			// panics inside run-time closures are judged by the contract's exec-ensures `panics` vocabulary
			o.names["panicked"] = boolLit(true)
			_ = phi
		} else {
			o.names["panicked"] = boolLit(false)
		}
		if o.out != outPanic && len(o.rets) != len(results) {
			engineFail("%s: literal returns %d values, the contract names %d", x.unit, len(o.rets), len(results))
		}
		for i, n := range results {
			if o.out == outPanic {
				o.names[n] = zeroOf(x.sortOf(resTypes[i]))
			} else {
				o.names[n] = o.rets[i]
			}
			o.names["$type:"+n] = resTypes[i]
		}
		o.names["panicNote"] = strLit(o.note)
		for k, v := range saveNames {
			o.names[k] = v
		}
		o.old = pre
		o.out = outNormal
		saveCtx := x.saveContractCtx()
		// postconditions see the literal's own top-level locals too (scope at the closing brace)
		litEntryPos := x.inlineLitPos
		x.inlineLitPos = lit.Body.Rbrace
		for i, en := range ensures {
			lab := en.Label
			if lab == "" {
				lab = fmt.Sprintf("%s%d", kind, i+1)
			}
			if strings.HasPrefix(en.Prop, "mode:") {
				if en.Prop != "mode:"+x.mode {
					continue
				}
			}
			if strings.HasPrefix(en.Prop, "path:") || strings.HasPrefix(en.Prop, "nopath:") {
				// the clause applies to the literals created on generator paths with (path:L) / without
				// (nopath:L) these labels; several tags are separated by ';'
				applies := true
				for _, tag := range strings.Split(en.Prop, ";") {
					tag = strings.TrimSpace(tag)
					if strings.HasPrefix(tag, "local:") {
						// a local (of the generator or of the literal) must exist on this path
						present := false
						if sc := x.pkg.Types.Scope().Innermost(x.inlineLitPos); sc != nil {
							if _, obj := sc.LookupParent(strings.TrimPrefix(tag, "local:"), x.inlineLitPos); obj != nil {
								if _, ok := o.env[obj]; ok {
									present = true
								}
							}
						}
						if !present {
							applies = false
						}
						continue
					}
					neg := strings.HasPrefix(tag, "nopath:")
					want := strings.TrimPrefix(strings.TrimPrefix(tag, "nopath:"), "path:")
					hit := false
					for _, lab := range st.trace {
						if lab == want {
							hit = true
						}
					}
					if hit == neg {
						applies = false
					}
				}
				if !applies {
					continue
				}
			}
			if strings.HasPrefix(en.Prop, "local:") {
				// the clause only applies to literals that have this generator local in scope
				name := strings.TrimPrefix(en.Prop, "local:")
				inScope := false
				if sc := x.pkg.Types.Scope().Innermost(x.inlineLitPos); sc != nil {
					if _, obj := sc.LookupParent(name, x.inlineLitPos); obj != nil {
						if _, ok := o.env[obj]; ok {
							inScope = true
						}
					}
				}
				if !inScope {
					continue
				}
			}
			x.contract = true
			x.localTags = localTagsOf(en.Prop)
			phi := x.evalBool(en.Expr, o)
			x.localTags = nil
			x.contract = false
			okind := "post"
			if strings.HasPrefix(lab, "canary:") {
				okind, lab = "canary", strings.TrimPrefix(lab, "canary:")
			}
			ob := x.oblige(o, okind, lab, phi, en.Src)
			if okind == "canary" {
				ob.MustFail = true
			}
			if en.Prop != "" && !strings.HasPrefix(en.Prop, "local:") && !strings.HasPrefix(en.Prop, "mode:") && !strings.HasPrefix(en.Prop, "path:") && !strings.HasPrefix(en.Prop, "nopath:") {
				ob.Prop = en.Prop
			}
		}
		x.inlineLitPos = litEntryPos
		x.restoreContractCtx(saveCtx)
	}
	x.nlitVerified++
	st.names["$execInstalled"] = true
}

// checkFrame: the `modifies` clause of a verified contract. Every modelled heap component the body
// changed is compared with its value at entry: pre-existing locations (references >= 0; the unit's own
// allocations are negative) other than the listed objects must hold what they held at entry.
func (x *Exec) checkFrame(c *Contract, o *State) {
	save := x.saveContractCtx()
	defer x.restoreContractCtx(save)
	// the objects the clause names are those of the entry state
	ent := o
	if o.old != nil {
		ent = o.old.clone()
		for _, pn := range c.Params {
			if v, ok := o.names[pn]; ok {
				ent.names[pn] = v
				ent.names["$type:"+pn] = o.names["$type:"+pn]
			}
		}
	}
	targets := x.modTargets(c, ent)
	keys := make([]string, 0, len(o.heap))
	for k := range o.heap {
		keys = append(keys, k)
	}
	sort.Strings(keys)
	for _, k := range keys {
		fin := o.heap[k]
		init := sanitize(k) + "_0"
		if !x.declared[init] {
			init = k + "_0"
		}
		if fin.S == init {
			continue
		}
		x.declConst(k+"_0", fin.Sort)
		var phi string
		if strings.HasPrefix(string(fin.Sort), "(Array Int ") {
			guards := []string{"(>= o_fr 0)"}
			for _, t := range targets {
				if t.key == k {
					guards = append(guards, "(not (= o_fr "+t.ref.S+"))")
				}
			}
			phi = "(forall ((o_fr Int)) (=> " + and(guards...) + " (= (select " + fin.S + " o_fr) (select " + x.declConst(k+"_0", fin.Sort).S + " o_fr))))"
		} else {
			phi = "(= " + fin.S + " " + x.declConst(k+"_0", fin.Sort).S + ")"
		}
		x.oblige(o, "frame", "modifies:"+k, phi, "modifies "+strings.Join(c.Modifies, ", "))
	}
}

// localTagsOf: the names a clause's tag list declares as locals of the unit ([local:a;path:...;local:b]).
func localTagsOf(prop string) map[string]bool {
	var m map[string]bool
	for _, t := range strings.Split(prop, ";") {
		t = strings.TrimSpace(t)
		if strings.HasPrefix(t, "local:") {
			if m == nil {
				m = map[string]bool{}
			}
			m[strings.TrimPrefix(t, "local:")] = true
		}
	}
	return m
}
