package main

import (
	"fmt"
	"go/ast"
	"go/constant"
	"go/token"
	"go/types"
	"os"
	"path/filepath"
	"sort"
	"strings"

	"golang.org/x/tools/go/packages"
)

type SpecSig struct {
	Args []Sort
	Res  Sort
}

// Loaded is the type-checked view of /repo's current working tree.
type Loaded struct {
	Repo    string
	Fset    *token.FileSet
	Pkgs    map[string]*packages.Package // by import path
	ByName  map[string]*packages.Package
	target  map[string]bool
	specs   map[string]SpecSig
	prelude string
	decls   map[*types.Func]*ast.FuncDecl
	declPkg map[*types.Func]*packages.Package
	tables  map[*types.Var][][2]constant.Value
	tabDone map[*types.Var]bool
	LoadSec float64
}

func Load(repo string, patterns []string, tags string, env ...string) (*Loaded, error) {
	cfg := &packages.Config{
		Mode:       packages.NeedName | packages.NeedFiles | packages.NeedCompiledGoFiles | packages.NeedImports | packages.NeedDeps | packages.NeedTypes | packages.NeedSyntax | packages.NeedTypesInfo | packages.NeedTypesSizes,
		Dir:        repo,
		BuildFlags: []string{"-tags=" + tags},
		Env:        append(append(os.Environ(), "GOFLAGS=-mod=mod", "GOPROXY=off", "GOSUMDB=off", "GOTOOLCHAIN=local"), env...),
	}
	pkgs, err := packages.Load(cfg, patterns...)
	if err != nil {
		return nil, err
	}
	L := &Loaded{Repo: repo, Pkgs: map[string]*packages.Package{}, ByName: map[string]*packages.Package{}, target: map[string]bool{},
		decls: map[*types.Func]*ast.FuncDecl{}, declPkg: map[*types.Func]*packages.Package{}, tables: map[*types.Var][][2]constant.Value{}, tabDone: map[*types.Var]bool{}}
	for _, p := range pkgs {
		if len(p.Errors) > 0 {
			return nil, fmt.Errorf("package %s does not type-check: %v", p.PkgPath, p.Errors[0])
		}
		L.Fset = p.Fset
		L.Pkgs[p.PkgPath] = p
		L.ByName[p.Name] = p
		L.target[p.PkgPath] = true
		for _, f := range p.Syntax {
			for _, d := range f.Decls {
				if fd, ok := d.(*ast.FuncDecl); ok {
					if fn, ok := p.TypesInfo.Defs[fd.Name].(*types.Func); ok {
						L.decls[fn] = fd
						L.declPkg[fn] = p
					}
				}
			}
		}
	}
	return L, nil
}

func (L *Loaded) funcDecl(fn *types.Func) *ast.FuncDecl { return L.decls[fn.Origin()] }
func (L *Loaded) funcDeclPkg(fn *types.Func) (*ast.FuncDecl, *packages.Package) {
	return L.decls[fn.Origin()], L.declPkg[fn.Origin()]
}

// FindFunc finds a function declaration by contract key ("name" or "Recv.name") in a package.
func (L *Loaded) FindFunc(p *packages.Package, key string) *ast.FuncDecl {
	for fn, fd := range L.decls {
		if L.declPkg[fn] != p {
			continue
		}
		k := fn.Name()
		if sig := fn.Type().(*types.Signature); sig.Recv() != nil {
			k = typeNameShort(sig.Recv().Type()) + "." + k
		}
		if k == key {
			return fd
		}
	}
	return nil
}

// globalTable returns the constant entries of a package-level map variable that is
// initialised by a composite literal and never written afterwards, or nil.
func (L *Loaded) globalTable(o *types.Var) [][2]constant.Value {
	if L.tabDone[o] {
		return L.tables[o]
	}
	L.tabDone[o] = true
	var p *packages.Package
	for _, q := range L.Pkgs {
		if q.Types == o.Pkg() {
			p = q
		}
	}
	if p == nil {
		return nil
	}
	var lit *ast.CompositeLit
	written := false
	for _, f := range p.Syntax {
		ast.Inspect(f, func(n ast.Node) bool {
			switch n := n.(type) {
			case *ast.ValueSpec:
				for i, id := range n.Names {
					if p.TypesInfo.Defs[id] == o && i < len(n.Values) {
						if cl, ok := n.Values[i].(*ast.CompositeLit); ok {
							lit = cl
						}
					}
				}
			case *ast.AssignStmt:
				for _, l := range n.Lhs {
					if rootObj(p.TypesInfo, l) == o {
						written = true
					}
				}
			case *ast.IncDecStmt:
				if rootObj(p.TypesInfo, n.X) == o {
					written = true
				}
			case *ast.UnaryExpr:
				if n.Op == token.AND && rootObj(p.TypesInfo, n.X) == o {
					written = true
				}
			case *ast.CallExpr:
				if id, ok := n.Fun.(*ast.Ident); ok && (id.Name == "delete" || id.Name == "clear") && len(n.Args) > 0 && rootObj(p.TypesInfo, n.Args[0]) == o {
					written = true
				}
			}
			return true
		})
	}
	if lit == nil || written {
		return nil
	}
	var tab [][2]constant.Value
	for _, el := range lit.Elts {
		kv, ok := el.(*ast.KeyValueExpr)
		if !ok {
			return nil
		}
		k, v := p.TypesInfo.Types[kv.Key].Value, p.TypesInfo.Types[kv.Value].Value
		if k == nil || v == nil {
			return nil
		}
		tab = append(tab, [2]constant.Value{k, v})
	}
	L.tables[o] = tab
	return tab
}

// globalNonNilError: a package-level variable initialised by errors.New / fmt.Errorf and never
// written afterwards holds a non-nil error.
func (L *Loaded) globalNonNilError(o *types.Var) bool {
	var p *packages.Package
	for _, q := range L.Pkgs {
		if q.Types == o.Pkg() {
			p = q
		}
	}
	if p == nil {
		return false
	}
	init, written := false, false
	for _, f := range p.Syntax {
		ast.Inspect(f, func(n ast.Node) bool {
			switch n := n.(type) {
			case *ast.ValueSpec:
				for i, id := range n.Names {
					if p.TypesInfo.Defs[id] == o && i < len(n.Values) {
						if ce, ok := n.Values[i].(*ast.CallExpr); ok {
							if se, ok := ce.Fun.(*ast.SelectorExpr); ok {
								if fn, ok := p.TypesInfo.ObjectOf(se.Sel).(*types.Func); ok && fn.Pkg() != nil {
									k := fn.Pkg().Path() + "." + fn.Name()
									if k == "errors.New" || k == "fmt.Errorf" {
										init = true
									}
								}
							}
						}
					}
				}
			case *ast.AssignStmt:
				for _, l := range n.Lhs {
					if rootObj(p.TypesInfo, l) == o {
						written = true
					}
				}
			case *ast.UnaryExpr:
				if n.Op == token.AND && rootObj(p.TypesInfo, n.X) == o {
					written = true
				}
			}
			return true
		})
	}
	return init && !written
}

func rootObj(info *types.Info, e ast.Expr) types.Object {
	for {
		switch x := e.(type) {
		case *ast.ParenExpr:
			e = x.X
		case *ast.IndexExpr:
			e = x.X
		case *ast.SelectorExpr:
			if _, isPkg := info.ObjectOf(rootIdent(x.X)).(*types.PkgName); isPkg {
				return info.ObjectOf(x.Sel)
			}
			e = x.X
		case *ast.StarExpr:
			e = x.X
		case *ast.Ident:
			return info.ObjectOf(x)
		default:
			return nil
		}
	}
}

// LoadSpecs reads the spec-function files; their text becomes the SMT prelude.
func (L *Loaded) LoadSpecs(dir string, names []string) error {
	L.specs = map[string]SpecSig{}
	var b strings.Builder
	files := []string{}
	for _, n := range names {
		files = append(files, filepath.Join(dir, n+".smt2"))
	}
	sort.Strings(files[1:])
	for _, fn := range files {
		data, err := os.ReadFile(fn)
		if err != nil {
			return err
		}
		b.WriteString("; ---- " + filepath.Base(fn) + "\n")
		b.Write(data)
		b.WriteString("\n")
		if err := parseSpecSigs(string(data), L.specs); err != nil {
			return fmt.Errorf("%s: %v", fn, err)
		}
	}
	L.prelude = b.String()
	return nil
}

// parseSpecSigs extracts (define-fun|define-fun-rec|declare-fun|declare-const name ...) signatures.
func parseSpecSigs(src string, out map[string]SpecSig) error {
	toks := sexprTokens(src)
	for i := 0; i < len(toks); i++ {
		if toks[i] != "(" || i+2 >= len(toks) {
			continue
		}
		kw := toks[i+1]
		switch kw {
		case "define-fun", "define-fun-rec":
			name := toks[i+2]
			j := i + 3
			// parameter list
			if toks[j] != "(" {
				continue
			}
			j++
			var args []Sort
			for toks[j] != ")" {
				// ( pname sort )
				j++ // "("
				j++ // pname
				s, nj := readSort(toks, j)
				args = append(args, Sort(s))
				j = nj
				j++ // ")"
			}
			j++
			res, _ := readSort(toks, j)
			out[name] = SpecSig{args, Sort(res)}
		case "declare-fun":
			name := toks[i+2]
			j := i + 3
			j++ // "("
			var args []Sort
			for toks[j] != ")" {
				s, nj := readSort(toks, j)
				args = append(args, Sort(s))
				j = nj
			}
			j++
			res, _ := readSort(toks, j)
			out[name] = SpecSig{args, Sort(res)}
		case "declare-const":
			res, _ := readSort(toks, i+3)
			out[toks[i+2]] = SpecSig{nil, Sort(res)}
		}
	}
	return nil
}

func readSort(toks []string, j int) (string, int) {
	if toks[j] != "(" {
		return toks[j], j + 1
	}
	d := 0
	var parts []string
	for {
		t := toks[j]
		if t == "(" {
			d++
		}
		if t == ")" {
			d--
		}
		parts = append(parts, t)
		j++
		if d == 0 {
			break
		}
	}
	s := strings.Join(parts, " ")
	s = strings.ReplaceAll(s, "( ", "(")
	s = strings.ReplaceAll(s, " )", ")")
	return s, j
}

func sexprTokens(src string) []string {
	var toks []string
	i := 0
	for i < len(src) {
		c := src[i]
		switch {
		case c == ';':
			for i < len(src) && src[i] != '\n' {
				i++
			}
		case c == '(' || c == ')':
			toks = append(toks, string(c))
			i++
		case c == '"':
			j := i + 1
			for j < len(src) {
				if src[j] == '"' {
					if j+1 < len(src) && src[j+1] == '"' {
						j += 2
						continue
					}
					break
				}
				j++
			}
			toks = append(toks, src[i:j+1])
			i = j + 1
		case c == ' ' || c == '\n' || c == '\t' || c == '\r':
			i++
		default:
			j := i
			for j < len(src) && !strings.ContainsRune(" \n\t\r()", rune(src[j])) {
				j++
			}
			toks = append(toks, src[i:j])
			i = j
		}
	}
	return toks
}

func rootIdent(e ast.Expr) *ast.Ident {
	for {
		switch x := e.(type) {
		case *ast.ParenExpr:
			e = x.X
		case *ast.Ident:
			return x
		default:
			return &ast.Ident{Name: "_"}
		}
	}
}
