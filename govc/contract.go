package main

import (
	"fmt"
	"go/ast"
	"go/parser"
	"os"
	"path/filepath"
	"sort"
	"strconv"
	"strings"
)

// Clause is one labelled contract expression.
type Clause struct {
	Label string
	Src   string
	Expr  ast.Expr
	Prop  string // property id the clause is attributed to ("" = contract default)
}

type LoopSpec struct {
	Index string // ghost name of the iteration index of a range loop
	Invs  []Clause
	After []Clause // must hold whenever the loop is left other than by return/panic
	Step  []Clause // the body's own contract: holds whenever one iteration is left (old = state at its start)
}

// Contract is the parsed form of one `//@ func` / `//@ closure` block.
type Contract struct {
	File     string
	Line     int
	Pkg      string
	Key      string // Func, Recv.Method
	FuncKey  string // for a variant unit (funcv): the function it verifies
	Params   []string
	Results  []string
	Ints     string // math | wrap | bv
	Props    []string
	Requires []Clause
	Ensures  []Clause
	Cases    []Clause
	Panics   []Clause
	Canaries []Clause
	Exits    []Clause // must hold on every exit, normal or panicking
	Lets     []Clause // let name: expr  (abbreviations evaluated in the pre-state)
	Assigns  []string
	Modifies []string // object-level frame: "p.f" entries (field f of the object parameter p denotes), or "nothing"
	HasMod   bool
	Pure     bool
	Trusted  bool // contract assumed, body not verified
	Loops    map[int]*LoopSpec
	ExecLoops map[int]*LoopSpec // loops inside the exec literals of a generator unit, numbered per literal
	Replay   []string
	Opts     map[string]string
	ExecParams, ExecResults []string // names for the literals a generator assigns to n.exec
	ExecEnsures, ExecRequires []Clause
	FnParams, FnResults []string // names for the function value a generator returns
	FnEnsures []Clause
	Completes []Clause // conditions under which the generator must have installed an exec closure
	LitGen   string // for literal units: key of the enclosing function
	LitSel   string // selector of the literal(s): calls:<fn> | exec#<k> | makefunc#<k>
	used     bool
}

type ContractDB struct {
	ByKey map[string]*Contract // pkg.Key
	All   []*Contract
	Preds map[string]*Pred // pkg.name
	Dups  []string         // keys declared more than once
}

// Pred is a contract-level abbreviation: //@ pred name(a, b): expr
type Pred struct {
	Name   string
	Params []string
	Body   Clause
}

// splitImplies rewrites top-level `a ==> b` into `implies(a, b)` (right associative).
func splitImplies(s string) string {
	depth := 0
	inStr := byte(0)
	for i := 0; i < len(s)-3; i++ {
		c := s[i]
		if inStr != 0 {
			if c == '\\' {
				i++
			} else if c == inStr {
				inStr = 0
			}
			continue
		}
		switch c {
		case '"', '\'', '`':
			inStr = c
		case '(', '[', '{':
			depth++
		case ')', ']', '}':
			depth--
		case '=':
			if depth == 0 && strings.HasPrefix(s[i:], "==>") {
				return "implies(" + strings.TrimSpace(s[:i]) + ", " + splitImplies(strings.TrimSpace(s[i+3:])) + ")"
			}
		}
	}
	return s
}

// rewriteNested handles `==>` inside parentheses by rewriting innermost groups first.
func rewriteImplies(s string) string {
	if !strings.Contains(s, "==>") {
		return s
	}
	// process parenthesised groups recursively
	var out strings.Builder
	i := 0
	for i < len(s) {
		c := s[i]
		if c == '"' || c == '`' || c == '\'' {
			j := i + 1
			for j < len(s) && s[j] != c {
				if s[j] == '\\' {
					j++
				}
				j++
			}
			if j >= len(s) {
				j = len(s) - 1
			}
			out.WriteString(s[i : j+1])
			i = j + 1
			continue
		}
		if c == '(' {
			d := 1
			j := i + 1
			for j < len(s) && d > 0 {
				switch s[j] {
				case '"', '`', '\'':
					q := s[j]
					j++
					for j < len(s) && s[j] != q {
						if s[j] == '\\' {
							j++
						}
						j++
					}
				case '(':
					d++
				case ')':
					d--
				}
				j++
			}
			inner := s[i+1 : j-1]
			// split inner on top-level commas so that each argument is rewritten separately
			parts := splitTopCommas(inner)
			for k := range parts {
				parts[k] = rewriteImplies(parts[k])
			}
			out.WriteString("(" + strings.Join(parts, ",") + ")")
			i = j
			continue
		}
		out.WriteByte(c)
		i++
	}
	return splitImplies(out.String())
}

func splitTopCommas(s string) []string {
	var parts []string
	d := 0
	last := 0
	for i := 0; i < len(s); i++ {
		switch s[i] {
		case '"', '`', '\'':
			q := s[i]
			i++
			for i < len(s) && s[i] != q {
				if s[i] == '\\' {
					i++
				}
				i++
			}
		case '(', '[', '{':
			d++
		case ')', ']', '}':
			d--
		case ',':
			if d == 0 {
				parts = append(parts, s[last:i])
				last = i + 1
			}
		}
	}
	parts = append(parts, s[last:])
	return parts
}

func parseClause(s string, file string, line int) (Clause, error) {
	s = strings.TrimSpace(s)
	c := Clause{}
	// optional "[Cnn]" property attribution
	if strings.HasPrefix(s, "[") {
		// the closing bracket that matches (path labels are source text and may contain brackets)
		depth, j := 0, -1
		for i, ch := range s {
			if ch == '[' {
				depth++
			}
			if ch == ']' {
				depth--
				if depth == 0 {
					j = i
					break
				}
			}
		}
		if j > 0 {
			c.Prop = s[1:j]
			s = strings.TrimSpace(s[j+1:])
		}
	}
	// optional "label:" prefix (label has no spaces, not followed by '=')
	if j := strings.Index(s, ":"); j > 0 {
		lab := s[:j]
		if !strings.ContainsAny(lab, " \t()\"'[]{}") && (j+1 >= len(s) || s[j+1] != '=') {
			c.Label = lab
			s = strings.TrimSpace(s[j+1:])
		}
	}
	c.Src = s
	e, err := parser.ParseExpr(rewriteImplies(s))
	if err != nil {
		return c, fmt.Errorf("%s:%d: cannot parse contract expression %q: %v", file, line, s, err)
	}
	c.Expr = e
	return c, nil
}

func parseHeader(s string) (key string, params, results []string, err error) {
	// forms: name(a, b) (r, ok)   |  (Recv) name(a) (r)
	s = strings.TrimSpace(s)
	recv := ""
	recvName := ""
	if strings.HasPrefix(s, "(") {
		j := strings.Index(s, ")")
		recv = strings.TrimSpace(s[1:j])
		recv = strings.TrimPrefix(recv, "*")
		if f := strings.Fields(recv); len(f) == 2 {
			recvName = f[0]
			recv = strings.TrimPrefix(f[1], "*")
		} else {
			recvName = recv // "(interp) run(...)": the receiver is named, its type is found by the method name
			recv = ""
		}
		s = strings.TrimSpace(s[j+1:])
	}
	i := strings.Index(s, "(")
	if i < 0 {
		return "", nil, nil, fmt.Errorf("bad contract header %q", s)
	}
	name := strings.TrimSpace(s[:i])
	j := strings.Index(s, ")")
	ps := strings.TrimSpace(s[i+1 : j])
	if recvName != "" {
		params = append(params, recvName)
	}
	if ps != "" {
		for _, p := range strings.Split(ps, ",") {
			params = append(params, strings.TrimSpace(p))
		}
	}
	rest := strings.TrimSpace(s[j+1:])
	if strings.HasPrefix(rest, "(") {
		rs := strings.TrimSuffix(strings.TrimPrefix(rest, "("), ")")
		for _, p := range strings.Split(rs, ",") {
			if p = strings.TrimSpace(p); p != "" {
				results = append(results, p)
			}
		}
	}
	key = name
	if recv != "" {
		key = recv + "." + name
	}
	return
}

// LoadContracts reads every zz_verif_contracts*.go in the given package directories.
func LoadContracts(dirs []string) (*ContractDB, error) {
	db := &ContractDB{ByKey: map[string]*Contract{}, Preds: map[string]*Pred{}}
	for _, d := range dirs {
		files, _ := filepath.Glob(filepath.Join(d, "zz_verif_contracts*.go"))
		sort.Strings(files)
		for _, fn := range files {
			if err := db.loadFile(fn); err != nil {
				return nil, err
			}
		}
	}
	return db, nil
}

func (db *ContractDB) loadFile(fn string) error {
	data, err := os.ReadFile(fn)
	if err != nil {
		return err
	}
	pkg := ""
	var cur *Contract
	var curLoop *LoopSpec
	lines := strings.Split(string(data), "\n")
	for ln, raw := range lines {
		line := strings.TrimSpace(raw)
		if strings.HasPrefix(line, "package ") {
			pkg = strings.TrimSpace(strings.TrimPrefix(line, "package "))
			continue
		}
		if !strings.HasPrefix(line, "//@") {
			continue
		}
		body := strings.TrimSpace(strings.TrimPrefix(line, "//@"))
		if body == "" {
			cur = nil
			curLoop = nil
			continue
		}
		if strings.HasPrefix(body, "--") { // comment inside contract block
			continue
		}
		word, rest := body, ""
		if i := strings.IndexAny(body, " \t"); i > 0 {
			word, rest = body[:i], strings.TrimSpace(body[i+1:])
		}
		// continuation lines: start with "|"
		if word == "|" {
			return fmt.Errorf("%s:%d: continuation lines are not supported", fn, ln+1)
		}
		if word == "trusted" && strings.HasPrefix(rest, "func ") {
			word = "func"
			rest = strings.TrimPrefix(rest, "func ")
			key, ps, rs, err := parseHeader(rest)
			if err != nil {
				return fmt.Errorf("%s:%d: %v", fn, ln+1, err)
			}
			cur = &Contract{File: fn, Line: ln + 1, Pkg: pkg, Key: key, Params: ps, Results: rs, Ints: "math", Loops: map[int]*LoopSpec{}, Trusted: true, Opts: map[string]string{}}
			db.add(cur)
			continue
		}
		if word == "pred" {
			j := strings.Index(rest, "):")
			if j < 0 {
				return fmt.Errorf("%s:%d: bad pred", fn, ln+1)
			}
			key, ps, _, err := parseHeader(rest[:j+1])
			if err != nil {
				return fmt.Errorf("%s:%d: %v", fn, ln+1, err)
			}
			cl, err := parseClause(rest[j+2:], fn, ln+1)
			if err != nil {
				return err
			}
			cl.Label = ""
			db.Preds[pkg+"."+key] = &Pred{Name: key, Params: ps, Body: cl}
			cur = nil
			continue
		}
		if word == "lit" {
			// lit <GenKey> <selector> (params) (results)
			f := strings.Fields(rest)
			if len(f) < 3 {
				return fmt.Errorf("%s:%d: lit needs <function> <selector> (params) (results)", fn, ln+1)
			}
			hdr := strings.TrimSpace(strings.TrimPrefix(strings.TrimSpace(strings.TrimPrefix(rest, f[0])), f[1]))
			_, ps, rs, err := parseHeader("lit" + hdr)
			if err != nil {
				return fmt.Errorf("%s:%d: %v", fn, ln+1, err)
			}
			cur = &Contract{File: fn, Line: ln + 1, Pkg: pkg, Key: f[0] + "/" + f[1], Params: ps, Results: rs, Ints: "math", Loops: map[int]*LoopSpec{}, Opts: map[string]string{}, LitGen: f[0], LitSel: f[1]}
			db.All = append(db.All, cur)
			curLoop = nil
			continue
		}
		if word == "funcv" {
			// a second contract of the same function, verified as a unit of its own (another integer
			// mode, another set of options); callers keep using the primary contract
			vf := strings.SplitN(rest, " ", 2)
			if len(vf) != 2 {
				return fmt.Errorf("%s:%d: funcv needs a variant name and a header", fn, ln+1)
			}
			key, ps, rs, err := parseHeader(vf[1])
			if err != nil {
				return fmt.Errorf("%s:%d: %v", fn, ln+1, err)
			}
			cur = &Contract{File: fn, Line: ln + 1, Pkg: pkg, Key: key + "~" + vf[0], FuncKey: key, Params: ps, Results: rs, Ints: "math", Loops: map[int]*LoopSpec{}, Opts: map[string]string{}}
			db.All = append(db.All, cur)
			curLoop = nil
			continue
		}
		if word == "func" {
			key, ps, rs, err := parseHeader(rest)
			if err != nil {
				return fmt.Errorf("%s:%d: %v", fn, ln+1, err)
			}
			cur = &Contract{File: fn, Line: ln + 1, Pkg: pkg, Key: key, Params: ps, Results: rs, Ints: "math", Loops: map[int]*LoopSpec{}, Opts: map[string]string{}}
			db.add(cur)
			curLoop = nil
			continue
		}
		if cur == nil {
			return fmt.Errorf("%s:%d: contract clause outside a func block: %s", fn, ln+1, body)
		}
		switch word {
		case "ints":
			cur.Ints = rest
		case "props":
			cur.Props = strings.Fields(strings.ReplaceAll(rest, ",", " "))
		case "pure":
			cur.Pure = true
		case "assigns":
			for _, a := range strings.Split(rest, ",") {
				cur.Assigns = append(cur.Assigns, strings.TrimSpace(a))
			}
		case "modifies":
			cur.HasMod = true
			for _, a := range strings.Split(rest, ",") {
				if a = strings.TrimSpace(a); a != "" && a != "nothing" {
					cur.Modifies = append(cur.Modifies, a)
				}
			}
		case "opt":
			kv := strings.SplitN(rest, "=", 2)
			if len(kv) == 2 {
				cur.Opts[strings.TrimSpace(kv[0])] = strings.TrimSpace(kv[1])
			} else {
				cur.Opts[strings.TrimSpace(rest)] = "true"
			}
		case "replay":
			cur.Replay = append(cur.Replay, rest)
		case "exec", "result-fn":
			_, ps, rs, err := parseHeader("x" + rest)
			if err != nil {
				return fmt.Errorf("%s:%d: %v", fn, ln+1, err)
			}
			if word == "exec" {
				cur.ExecParams, cur.ExecResults = ps, rs
			} else {
				cur.FnParams, cur.FnResults = ps, rs
			}
		case "requires", "ensures", "case", "canary", "let", "invariant", "after", "step", "exits", "exec-ensures", "exec-requires", "fn-ensures", "exec-canary", "completes":
			cl, err := parseClause(rest, fn, ln+1)
			if err != nil {
				return err
			}
			switch word {
			case "requires":
				cur.Requires = append(cur.Requires, cl)
			case "ensures":
				cur.Ensures = append(cur.Ensures, cl)
			case "case":
				cur.Cases = append(cur.Cases, cl)
			case "canary":
				cur.Canaries = append(cur.Canaries, cl)
			case "exits":
				cur.Exits = append(cur.Exits, cl)
			case "exec-ensures":
				cur.ExecEnsures = append(cur.ExecEnsures, cl)
			case "exec-canary":
				if cl.Label == "" {
					cl.Label = "c"
				}
				cl.Label = "canary:" + cl.Label
				cur.ExecEnsures = append(cur.ExecEnsures, cl)
			case "completes":
				cur.Completes = append(cur.Completes, cl)
			case "exec-requires":
				cur.ExecRequires = append(cur.ExecRequires, cl)
			case "fn-ensures":
				cur.FnEnsures = append(cur.FnEnsures, cl)
			case "let":
				cur.Lets = append(cur.Lets, cl)
			case "invariant":
				if curLoop == nil {
					return fmt.Errorf("%s:%d: invariant outside a loop block", fn, ln+1)
				}
				curLoop.Invs = append(curLoop.Invs, cl)
			case "step":
				if curLoop == nil {
					return fmt.Errorf("%s:%d: step outside a loop block", fn, ln+1)
				}
				curLoop.Step = append(curLoop.Step, cl)
			case "after":
				if curLoop == nil {
					return fmt.Errorf("%s:%d: after outside a loop block", fn, ln+1)
				}
				curLoop.After = append(curLoop.After, cl)
			}
		case "panics":
			r := strings.TrimSpace(strings.TrimPrefix(rest, "when"))
			cl, err := parseClause(r, fn, ln+1)
			if err != nil {
				return err
			}
			cur.Panics = append(cur.Panics, cl)
		case "loop", "exec-loop":
			// loop <ordinal> [index <name>]; exec-loop: the k-th loop inside each exec literal of a generator unit
			f := strings.Fields(rest)
			if len(f) == 0 {
				return fmt.Errorf("%s:%d: loop needs an ordinal", fn, ln+1)
			}
			n, err := strconv.Atoi(f[0])
			if err != nil {
				return fmt.Errorf("%s:%d: bad loop ordinal", fn, ln+1)
			}
			curLoop = &LoopSpec{}
			for i := 1; i+1 < len(f); i += 2 {
				if f[i] == "index" {
					curLoop.Index = f[i+1]
				}
			}
			if word == "exec-loop" {
				if cur.ExecLoops == nil {
					cur.ExecLoops = map[int]*LoopSpec{}
				}
				cur.ExecLoops[n] = curLoop
			} else {
				cur.Loops[n] = curLoop
			}
		default:
			return fmt.Errorf("%s:%d: unknown contract keyword %q", fn, ln+1, word)
		}
	}
	return nil
}

func (db *ContractDB) add(c *Contract) {
	if prev, dup := db.ByKey[c.Pkg+"."+c.Key]; dup && prev != c {
		// the later declaration would silently replace the earlier one at every call site
		db.Dups = append(db.Dups, c.Pkg+"."+c.Key)
	}
	db.ByKey[c.Pkg+"."+c.Key] = c
	db.All = append(db.All, c)
}
