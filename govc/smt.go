package main

import (
	"bytes"
	"context"
	"fmt"
	"os"
	"os/exec"
	"strings"
	"sync"
	"time"
)

// Result of one solver race on one obligation.
type Result struct {
	Status string  `json:"status"` // unsat | sat | unknown | timeout | error
	Solver string  `json:"solver"`
	Secs   float64 `json:"secs"`
	Model  string  `json:"model,omitempty"`
	Raw    string  `json:"raw,omitempty"`
	Agree  int     `json:"agree,omitempty"` // number of solvers that answered unsat (thorough)
}

type solverSpec struct {
	name string
	args func(file string, tmo int) []string
	prep func(script string) string
}

var solvers = []solverSpec{
	{"z3-new", func(f string, t int) []string { return []string{"z3-new", fmt.Sprintf("-T:%d", t), f} }, prepZ3},
	{"cvc5", func(f string, t int) []string {
		return []string{"cvc5", "--lang=smt2", "--strings-exp", "--produce-models", fmt.Sprintf("--tlimit=%d", t*1000), f}
	}, prepCVC5},
	{"z3", func(f string, t int) []string { return []string{"z3", fmt.Sprintf("-T:%d", t), f} }, prepZ3},
}

func prepZ3(s string) string { return s }
func prepCVC5(s string) string {
	return "(set-logic ALL)\n" + s
}

var solverStats = struct {
	sync.Mutex
	count map[string]int
	secs  map[string]float64
}{count: map[string]int{}, secs: map[string]float64{}}

func noteSolver(name string, secs float64) {
	solverStats.Lock()
	solverStats.count[name]++
	solverStats.secs[name] += secs
	solverStats.Unlock()
}

var scratchDir string

func scratch() string {
	if scratchDir == "" {
		d, err := os.MkdirTemp("", "govc-smt-")
		if err != nil {
			panic(err)
		}
		scratchDir = d
	}
	return scratchDir
}

var fileSeq struct {
	sync.Mutex
	n int
}

func runSolver(sp solverSpec, ctx context.Context, script string, tmo int) Result {
	fileSeq.Lock()
	fileSeq.n++
	fn := fmt.Sprintf("%s/q%d_%s.smt2", scratch(), fileSeq.n, sp.name)
	fileSeq.Unlock()
	if err := os.WriteFile(fn, []byte(sp.prep(script)), 0o644); err != nil {
		return Result{Status: "error", Solver: sp.name, Raw: err.Error()}
	}
	defer os.Remove(fn)
	a := sp.args(fn, tmo)
	cmd := exec.CommandContext(ctx, a[0], a[1:]...)
	var out bytes.Buffer
	cmd.Stdout = &out
	cmd.Stderr = &out
	t0 := time.Now()
	_ = cmd.Run()
	secs := time.Since(t0).Seconds()
	txt := out.String()
	first := strings.TrimSpace(strings.SplitN(txt, "\n", 2)[0])
	r := Result{Solver: sp.name, Secs: secs}
	switch first {
	case "unsat":
		r.Status = "unsat"
	case "sat":
		r.Status = "sat"
		if i := strings.Index(txt, "\n"); i >= 0 {
			r.Model = strings.TrimSpace(txt[i+1:])
		}
	case "unknown":
		r.Status = "unknown"
		r.Raw = trunc(txt, 600)
	case "timeout":
		r.Status = "timeout"
	default:
		if ctx.Err() != nil {
			r.Status = "timeout"
		} else if strings.Contains(txt, "timeout") || strings.Contains(txt, "interrupted") {
			r.Status = "timeout"
		} else {
			r.Status = "error"
		}
		r.Raw = trunc(txt, 800)
	}
	return r
}

func trunc(s string, n int) string {
	if len(s) > n {
		return s[:n] + "..."
	}
	return s
}

// Solve races the installed solvers on script (which must end with (check-sat) and
// optional (get-value ...)). quick: first definitive answer wins. thorough: an unsat must be
// confirmed by a second solver when one can decide it inside the time limit (Agree reports how many did).
func Solve(script string, tmoSec int, thorough bool) Result {
	ctx, cancel := context.WithTimeout(context.Background(), time.Duration(tmoSec+2)*time.Second)
	defer cancel()
	ch := make(chan Result, len(solvers))
	for _, sp := range solvers {
		sp := sp
		go func() { ch <- runSolver(sp, ctx, script, tmoSec) }()
	}
	var best Result
	best.Status = "unknown"
	unsat := 0
	var raws []string
	for i := 0; i < len(solvers); i++ {
		r := <-ch
		noteSolver(r.Solver, r.Secs)
		switch r.Status {
		case "unsat":
			unsat++
			if best.Status != "unsat" {
				best = r
			}
			if !thorough || unsat >= 2 {
				best.Agree = unsat
				cancel()
				go drain(ch, len(solvers)-i-1)
				return best
			}
		case "sat":
			if best.Status != "unsat" {
				best = r
				cancel()
				go drain(ch, len(solvers)-i-1)
				return best
			}
		default:
			raws = append(raws, r.Solver+": "+r.Status+" "+r.Raw)
			if best.Status != "unsat" && best.Status != "sat" {
				if r.Status == "timeout" || best.Solver == "" {
					best.Status = r.Status
					best.Solver = r.Solver
					best.Secs = r.Secs
				}
			}
		}
	}
	best.Agree = unsat
	if best.Status != "unsat" && best.Status != "sat" {
		best.Raw = strings.Join(raws, " | ")
	}
	return best
}

func drain(ch chan Result, n int) {
	for i := 0; i < n; i++ {
		r := <-ch
		noteSolver(r.Solver, r.Secs)
	}
}
