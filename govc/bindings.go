package main

import (
	"fmt"
	"os/exec"
	"go/ast"
	"go/constant"
	"go/parser"
	"go/token"
	"go/types"
	"os"
	"path/filepath"
	"sort"
	"strconv"
	"strings"

	"golang.org/x/tools/go/packages"
)

// restrictedNames are the documented replacements (extract.go `restricted` map): key -> local symbol.
var restrictedNames = map[string]string{
	"os.Exit": "osExit", "os.FindProcess": "osFindProcess",
	"log.Fatal": "logFatal", "log.Fatalf": "logFatalf", "log.Fatalln": "logFatalln",
	"log.Logger": "logLogger", "log.New": "logNew",
}

// typedForms records, per "importpath.Key", the binding form seen in a typed (host release) table,
// so that the other release's file can be compared with its twin.
var typedForms = map[string]string{}

type bindStats struct {
	entries, funcs, vars, types_, consts, wrappers, wrapperMethods, complete, syntactic int
	tables                                                                          int
}

// symbolTables finds every `X["path/name"] = map[string]reflect.Value{...}` assignment in init functions.
func symbolTables(files []*ast.File) (out []tableLit) {
	for _, f := range files {
		for _, d := range f.Decls {
			fd, ok := d.(*ast.FuncDecl)
			if !ok || fd.Name.Name != "init" || fd.Body == nil {
				continue
			}
			for _, s := range fd.Body.List {
				as, ok := s.(*ast.AssignStmt)
				if !ok || len(as.Lhs) != 1 || len(as.Rhs) != 1 {
					continue
				}
				ix, ok := as.Lhs[0].(*ast.IndexExpr)
				if !ok {
					continue
				}
				lit, ok := ix.Index.(*ast.BasicLit)
				if !ok || lit.Kind != token.STRING {
					continue
				}
				cl, ok := as.Rhs[0].(*ast.CompositeLit)
				if !ok {
					continue
				}
				key, _ := strconv.Unquote(lit.Value)
				out = append(out, tableLit{File: f, Key: key, Lit: cl})
			}
		}
	}
	return
}

type tableLit struct {
	File *ast.File
	Key  string // "os/os"
	Lit  *ast.CompositeLit
}

// entryForm classifies the value expression of one binding.
// forms: func-or-const (reflect.ValueOf(p.N)), var (reflect.ValueOf(&p.N).Elem()),
// type (reflect.ValueOf((*p.N)(nil))), constlit (reflect.ValueOf(constant.MakeFromLiteral(..))).
func entryForm(e ast.Expr) (form string, target ast.Expr, lit, tok string) {
	call, ok := e.(*ast.CallExpr)
	if !ok {
		return "unknown", nil, "", ""
	}
	// reflect.ValueOf(&p.N).Elem()
	if se, ok := call.Fun.(*ast.SelectorExpr); ok && se.Sel.Name == "Elem" && len(call.Args) == 0 {
		if inner, ok := se.X.(*ast.CallExpr); ok && isSel(inner.Fun, "reflect", "ValueOf") && len(inner.Args) == 1 {
			if u, ok := inner.Args[0].(*ast.UnaryExpr); ok && u.Op == token.AND {
				return "var", u.X, "", ""
			}
		}
		return "unknown", nil, "", ""
	}
	if !isSel(call.Fun, "reflect", "ValueOf") || len(call.Args) != 1 {
		return "unknown", nil, "", ""
	}
	a := call.Args[0]
	if c, ok := a.(*ast.CallExpr); ok {
		if isSel(c.Fun, "constant", "MakeFromLiteral") && len(c.Args) == 3 {
			l, _ := c.Args[0].(*ast.BasicLit)
			t, _ := c.Args[1].(*ast.SelectorExpr)
			if l != nil && t != nil {
				s, _ := strconv.Unquote(l.Value)
				return "constlit", nil, s, t.Sel.Name
			}
			return "unknown", nil, "", ""
		}
		// (*p.N)(nil)
		if p, ok := c.Fun.(*ast.ParenExpr); ok && len(c.Args) == 1 {
			if st, ok := p.X.(*ast.StarExpr); ok {
				if id, ok := c.Args[0].(*ast.Ident); ok && id.Name == "nil" {
					return "type", st.X, "", ""
				}
			}
		}
		return "unknown", nil, "", ""
	}
	return "value", a, "", ""
}

func isSel(e ast.Expr, pkg, name string) bool {
	se, ok := e.(*ast.SelectorExpr)
	if !ok || se.Sel.Name != name {
		return false
	}
	id, ok := se.X.(*ast.Ident)
	return ok && id.Name == pkg
}

// checkBindings verifies the postcondition of every generated init of the loaded packages.
func (r *Run) checkBindings(pkgNames []string, completeness bool, onlyPaths ...string) *bindStats {
	st := &bindStats{}
	union := map[string]map[string]bool{}   // import path -> keys bound in any loaded table
	tpkgs := map[string]*types.Package{}
	first := map[string]string{}
	for _, pn := range pkgNames {
		p := r.L.ByName[pn]
		if p == nil {
			r.engineError("package %s not loaded", pn)
			continue
		}
		for _, t := range symbolTables(p.Syntax) {
			ipath, have, tpkg, unit := r.checkTable(p, t, st)
			if ipath == "" {
				continue
			}
			if union[ipath] == nil {
				union[ipath] = map[string]bool{}
				first[ipath] = unit
			}
			for k := range have {
				union[ipath][k] = true
			}
			if tpkg != nil {
				tpkgs[ipath] = tpkg
			}
		}
	}
	later := laterAPI(22)
	r.Extra["api_additions_exempted"] = len(later)
	if completeness {
		var paths []string
		for ip := range union {
			paths = append(paths, ip)
		}
		sort.Strings(paths)
		for _, ip := range paths {
			tpkg := tpkgs[ip]
			if tpkg == nil {
				continue
			}
			if len(onlyPaths) > 0 {
				keep := false
				for _, op := range onlyPaths {
					if op == ip {
						keep = true
					}
				}
				if !keep {
					continue
				}
			}
			have := union[ip]
			nbad := 0
			for _, name := range tpkg.Scope().Names() {
				o := tpkg.Scope().Lookup(name)
				if !o.Exported() || generic(o) {
					continue
				}
				if _, isBuiltin := o.(*types.Builtin); isBuiltin {
					continue // unsafe.Sizeof & co. are not values
				}
				if later[ip+"."+name] {
					continue // declared by a release newer than the table's
				}
				st.complete++
				if !have[name] {
					nbad++
					r.ground(fmt.Sprintf("complete[%s]/present[%s]", ip, name), "every exported non-generic object of the package is bound", false, fmt.Sprintf("exported object %s.%s is bound in no table", ip, name))
				}
				if tn, ok := o.(*types.TypeName); ok {
					if it, ok := tn.Type().Underlying().(*types.Interface); ok && hasExportedMethod(it) && !have["_"+name] {
						nbad++
						r.ground(fmt.Sprintf("complete[%s]/present[_%s]", ip, name), "every exported interface has a wrapper entry", false, fmt.Sprintf("interface %s.%s has no wrapper entry", ip, name))
					}
				}
			}
			if nbad == 0 {
				r.ground(fmt.Sprintf("complete[%s]/all-present", ip), "every exported non-generic object of "+ip+" is bound (union of the loaded tables)", true, "")
			}
		}
	}
	return st
}

func (r *Run) checkTable(p *packages.Package, t tableLit, st *bindStats) (string, map[string]bool, *types.Package, string) {
	st.tables++
	info := p.TypesInfo
	// "os/os": import path is everything before the last "/"
	i := strings.LastIndex(t.Key, "/")
	if i < 0 {
		st.tables--
		return "", nil, nil, ""
	}
	ipath, pname := t.Key[:i], t.Key[i+1:]
	fileBase := p.Types.Name() + "/" + shortFile(r.L.Fset.Position(t.File.Pos()).Filename)
	if strings.HasPrefix(ipath, "github.com/traefik/yaegi") {
		st.tables--
		return "", nil, nil, "" // the package's own Symbols entry
	}
	var tpkg *types.Package
	for _, imp := range p.Types.Imports() {
		if imp.Path() == ipath {
			tpkg = imp
		}
	}
	unit := fmt.Sprintf("%s[%s]", fileBase, t.Key)
	var bad []string
	fail := func(key, why string) {
		bad = append(bad, key)
		r.ground(fmt.Sprintf("%s/binds[%s]", unit, key), "entry denotes the identically named object of "+ipath, false, why)
	}
	have := map[string]bool{}
	for _, el := range t.Lit.Elts {
		kv, ok := el.(*ast.KeyValueExpr)
		if !ok {
			continue
		}
		kl, ok := kv.Key.(*ast.BasicLit)
		if !ok {
			continue
		}
		key, _ := strconv.Unquote(kl.Value)
		st.entries++
		have[key] = true
		form, target, lit, tok := entryForm(kv.Value)
		typedForms[twinKey(fileBase)+":"+ipath+"."+key] = form
		if strings.HasPrefix(key, "_") {
			// interface wrapper: "_K": reflect.ValueOf((*_pkg_K)(nil))
			st.wrappers++
			if why := r.checkWrapper(p, tpkg, pname, key[1:], form, target, st); why != "" {
				fail(key, why)
			}
			continue
		}
		if tpkg == nil {
			fail(key, "package "+ipath+" is not imported by the file")
			continue
		}
		obj := tpkg.Scope().Lookup(key)
		if obj == nil {
			fail(key, fmt.Sprintf("%s has no object named %s", ipath, key))
			continue
		}
		// what the expression denotes
		var den types.Object
		if target != nil {
			switch x := target.(type) {
			case *ast.SelectorExpr:
				den = info.ObjectOf(x.Sel)
			case *ast.Ident:
				den = info.ObjectOf(x)
			}
		}
		if repl, ok := restrictedNames[pname+"."+key]; ok && p.Types.Name() == "stdlib" {
			// documented replacement: must denote the stdlib-local symbol of that name
			if den == nil || den.Pkg() != p.Types || den.Name() != repl {
				fail(key, fmt.Sprintf("restricted name %s.%s must be bound to %s", pname, key, repl))
			}
			continue
		}
		switch form {
		case "constlit":
			st.consts++
			c, ok := obj.(*types.Const)
			if !ok {
				fail(key, "bound to a constant literal but "+key+" is not a constant")
				continue
			}
			var tk token.Token
			switch tok {
			case "INT":
				tk = token.INT
			case "FLOAT":
				tk = token.FLOAT
			case "STRING":
				tk = token.STRING
			case "CHAR":
				tk = token.CHAR
			case "IMAG":
				tk = token.IMAG
			}
			v := constant.MakeFromLiteral(lit, tk, 0)
			if v.Kind() == constant.Unknown || !constEqual(v, c.Val()) {
				fail(key, fmt.Sprintf("literal %s differs from %s.%s = %s", lit, pname, key, c.Val().ExactString()))
			}
		case "var":
			st.vars++
			if v, ok := den.(*types.Var); !ok || den != obj || v.IsField() {
				fail(key, fmt.Sprintf("address form must denote variable %s.%s, denotes %v", pname, key, den))
			}
		case "type":
			st.types_++
			if _, ok := den.(*types.TypeName); !ok || den != obj {
				fail(key, fmt.Sprintf("type form must denote type %s.%s, denotes %v", pname, key, den))
			}
		case "value":
			st.funcs++
			switch obj.(type) {
			case *types.Func, *types.Const:
				if den != obj {
					fail(key, fmt.Sprintf("must denote %s.%s, denotes %v", pname, key, den))
				}
			case *types.Var:
				fail(key, fmt.Sprintf("variable %s.%s must be bound by address (reflect.ValueOf(&x).Elem()), it is bound by value", pname, key))
			default:
				fail(key, fmt.Sprintf("%s.%s is a %T, bound by value", pname, key, obj))
			}
		default:
			fail(key, "unrecognised binding expression "+types.ExprString(kv.Value))
		}
	}
	o := r.ground(fmt.Sprintf("%s/binds-all", unit), fmt.Sprintf("%d entries of %s denote their namesakes; table complete", len(t.Lit.Elts), t.Key), len(bad) == 0, "")
	if len(bad) > 0 {
		r.Obls = r.Obls[:len(r.Obls)-1]
		_ = o
	}
	return ipath, have, tpkg, unit
}

func hasExportedMethod(it *types.Interface) bool {
	for i := 0; i < it.NumMethods(); i++ {
		if it.Method(i).Exported() {
			return true
		}
	}
	return false
}

func generic(o types.Object) bool {
	switch o := o.(type) {
	case *types.Func:
		sig := o.Type().(*types.Signature)
		return sig.TypeParams().Len() > 0
	case *types.TypeName:
		if n, ok := o.Type().(*types.Named); ok {
			return n.TypeParams().Len() > 0
		}
		if a, ok := o.Type().(*types.Alias); ok {
			_ = a
		}
		if it, ok := o.Type().Underlying().(*types.Interface); ok && !it.IsMethodSet() {
			return true // constraint interface: cannot be used as a value type
		}
	}
	return false
}

// checkWrapper: struct _pkg_K has IValue and one W<M> field per exported method of interface
// pkg.K with the identical signature, and method M forwards to W.W<M> with the parameters in order.
func (r *Run) checkWrapper(p *packages.Package, tpkg *types.Package, pname, name, form string, target ast.Expr, st *bindStats) string {
	if form != "type" {
		return "wrapper entry must be reflect.ValueOf((*_pkg_Name)(nil))"
	}
	id, ok := target.(*ast.Ident)
	if !ok {
		return "wrapper entry must name a local wrapper type"
	}
	tn, ok := p.TypesInfo.ObjectOf(id).(*types.TypeName)
	if !ok {
		return "wrapper type " + id.Name + " not found"
	}
	want := "_" + strings.NewReplacer("/", "_", "-", "_", ".", "_").Replace(tpkg.Path()) + "_" + name
	if tn.Name() != want {
		return fmt.Sprintf("wrapper type is %s, want %s", tn.Name(), want)
	}
	iobj, ok := tpkg.Scope().Lookup(name).(*types.TypeName)
	if !ok {
		return fmt.Sprintf("%s.%s is not a type", pname, name)
	}
	it, ok := iobj.Type().Underlying().(*types.Interface)
	if !ok {
		return fmt.Sprintf("%s.%s is not an interface", pname, name)
	}
	sv, ok := tn.Type().Underlying().(*types.Struct)
	if !ok {
		return tn.Name() + " is not a struct"
	}
	fields := map[string]*types.Var{}
	for i := 0; i < sv.NumFields(); i++ {
		fields[sv.Field(i).Name()] = sv.Field(i)
	}
	if fields["IValue"] == nil {
		return "wrapper lacks IValue"
	}
	nExp := 0
	for i := 0; i < it.NumMethods(); i++ {
		m := it.Method(i)
		if !m.Exported() {
			continue
		}
		nExp++
		st.wrapperMethods++
		f := fields["W"+m.Name()]
		if f == nil {
			if laterAPI(22)[tpkg.Path()+"."+name+"."+m.Name()] {
				nExp--
				continue // method added to the interface by a newer release than the table's
			}
			return fmt.Sprintf("wrapper lacks field W%s", m.Name())
		}
		ms := m.Type().(*types.Signature)
		fs, ok := f.Type().(*types.Signature)
		if !ok || !types.Identical(types.NewSignatureType(nil, nil, nil, ms.Params(), ms.Results(), ms.Variadic()), fs) {
			return fmt.Sprintf("field W%s has type %s, method is %s", m.Name(), f.Type(), ms)
		}
		// forwarding body
		fd := r.methodDecl(p, tn, m.Name())
		if fd == nil {
			return fmt.Sprintf("wrapper has no method %s", m.Name())
		}
		if why := forwards(fd, m.Name(), ms); why != "" {
			return fmt.Sprintf("method %s: %s", m.Name(), why)
		}
	}
	if len(fields) != nExp+1 {
		return fmt.Sprintf("wrapper has %d fields, interface has %d exported methods", len(fields)-1, nExp)
	}
	return ""
}

func (r *Run) methodDecl(p *packages.Package, tn *types.TypeName, name string) *ast.FuncDecl {
	for fn, fd := range r.L.decls {
		if r.L.declPkg[fn] != p || fn.Name() != name {
			continue
		}
		sig := fn.Type().(*types.Signature)
		if sig.Recv() != nil && typeNameShort(sig.Recv().Type()) == tn.Name() {
			return fd
		}
	}
	return nil
}

// forwards checks that the method body is `return W.W<M>(p0, p1, ...)` (with `...` for a variadic
// last parameter), optionally preceded by the nil guard generated for String.
func forwards(fd *ast.FuncDecl, name string, sig *types.Signature) string {
	if fd.Recv == nil || len(fd.Recv.List) != 1 || len(fd.Recv.List[0].Names) != 1 {
		return "unexpected receiver"
	}
	recv := fd.Recv.List[0].Names[0].Name
	var params []string
	for _, f := range fd.Type.Params.List {
		for _, n := range f.Names {
			params = append(params, n.Name)
		}
	}
	if len(params) != sig.Params().Len() {
		return "parameter count differs"
	}
	stmts := fd.Body.List
	if name == "String" && len(stmts) == 2 {
		// if W.WString == nil { return "" }
		ifs, ok := stmts[0].(*ast.IfStmt)
		if !ok || types.ExprString(ifs.Cond) != recv+".WString == nil" {
			return "unexpected guard"
		}
		stmts = stmts[1:]
	}
	if len(stmts) != 1 {
		return "body is not a single forwarding statement"
	}
	var call *ast.CallExpr
	switch s := stmts[0].(type) {
	case *ast.ReturnStmt:
		if len(s.Results) != 1 {
			return "return does not forward one call"
		}
		call, _ = s.Results[0].(*ast.CallExpr)
	case *ast.ExprStmt:
		call, _ = s.X.(*ast.CallExpr)
	}
	if call == nil {
		return "body does not forward"
	}
	if types.ExprString(call.Fun) != recv+".W"+name {
		return "forwards to " + types.ExprString(call.Fun) + ", want " + recv + ".W" + name
	}
	if len(call.Args) != len(params) {
		return "argument count differs"
	}
	for i, a := range call.Args {
		if id, ok := a.(*ast.Ident); !ok || id.Name != params[i] {
			return fmt.Sprintf("argument %d is %s, want %s", i, types.ExprString(a), params[i])
		}
	}
	if sig.Variadic() != call.Ellipsis.IsValid() {
		return "variadic forwarding differs"
	}
	return ""
}

// syntacticBindings checks files the installed toolchain cannot type (other releases, other
// platforms): key == selector name, package qualifier == table's package, known form.
func (r *Run) syntacticBindings(globs []string, st *bindStats) {
	fset := token.NewFileSet()
	var files []string
	for _, g := range globs {
		m, _ := filepath.Glob(filepath.Join(r.Repo, g))
		files = append(files, m...)
	}
	sort.Strings(files)
	for _, fn := range files {
		src, err := os.ReadFile(fn)
		if err != nil {
			continue
		}
		f, err := parser.ParseFile(fset, fn, src, parser.SkipObjectResolution)
		if err != nil {
			r.engineError("parse %s: %v", fn, err)
			continue
		}
		// import names -> paths
		imps := map[string]string{}
		for _, im := range f.Imports {
			pth, _ := strconv.Unquote(im.Path.Value)
			nm := pth[strings.LastIndex(pth, "/")+1:]
			if im.Name != nil {
				nm = im.Name.Name
			}
			imps[nm] = pth
		}
		for _, t := range symbolTables([]*ast.File{f}) {
			st.tables++
			i := strings.LastIndex(t.Key, "/")
			if i < 0 {
				continue
			}
			ipath, pname := t.Key[:i], t.Key[i+1:]
			unit := fmt.Sprintf("%s[%s]", shortFile(fn), t.Key)
			nbad := 0
			for _, el := range t.Lit.Elts {
				kv, ok := el.(*ast.KeyValueExpr)
				if !ok {
					continue
				}
				kl, _ := kv.Key.(*ast.BasicLit)
				if kl == nil {
					continue
				}
				key, _ := strconv.Unquote(kl.Value)
				st.entries++
				st.syntactic++
				form, target, _, _ := entryForm(kv.Value)
				why := ""
				pkgDir := filepath.Base(filepath.Dir(fn))
				if tf, ok := typedForms[twinKey(pkgDir+"/"+shortFile(fn))+":"+ipath+"."+key]; ok && tf != form && !(tf == "constlit" && form == "value") && !(tf == "value" && form == "constlit") {
					why = fmt.Sprintf("bound in the %s form, the typed twin of this entry uses the %s form", form, tf)
				}
				switch {
				case why != "":
				case strings.HasPrefix(key, "_"):
					if id, ok := target.(*ast.Ident); !ok || form != "type" || !strings.HasSuffix(id.Name, "_"+key[1:]) {
						why = "wrapper entry does not name _<pkg>_" + key[1:]
					}
				case form == "constlit":
				case form == "unknown":
					why = "unrecognised binding expression"
				default:
					if repl, ok := restrictedNames[pname+"."+key]; ok {
						if id, ok := target.(*ast.Ident); !ok || id.Name != repl {
							why = "restricted name must be bound to " + repl
						}
						break
					}
					se, ok := target.(*ast.SelectorExpr)
					if !ok {
						why = "does not select from the package"
						break
					}
					q, _ := se.X.(*ast.Ident)
					if q == nil || imps[q.Name] != ipath {
						why = "selects from another package than " + ipath
					} else if se.Sel.Name != key {
						why = fmt.Sprintf("key %s is bound to %s.%s", key, q.Name, se.Sel.Name)
					}
				}
				if why != "" {
					nbad++
					r.ground(fmt.Sprintf("%s/binds[%s]", unit, key), "key and selector agree (syntactic)", false, why)
				}
			}
			if nbad == 0 {
				r.ground(fmt.Sprintf("%s/binds-all-syntactic", unit), fmt.Sprintf("%d entries: key, package qualifier and selector agree", len(t.Lit.Elts)), true, "")
			}
		}
	}
}

func constEqual(a, b constant.Value) bool {
	num := func(v constant.Value) bool {
		return v.Kind() == constant.Int || v.Kind() == constant.Float || v.Kind() == constant.Complex
	}
	if num(a) && num(b) {
		return constant.Compare(constant.ToComplex(a), token.EQL, constant.ToComplex(b))
	}
	if a.Kind() != b.Kind() {
		return false
	}
	return constant.Compare(a, token.EQL, b)
}

var laterCache map[string]bool

// laterAPI lists "pkg.Name" and "pkg.Type.Method" entries that GOROOT/api/go1.N.txt files
// declare for N > minor: objects a go1.<minor> table cannot be expected to bind.
func laterAPI(minor int) map[string]bool {
	if laterCache != nil {
		return laterCache
	}
	laterCache = map[string]bool{}
	goroot := strings.TrimSpace(runGoEnv("GOROOT"))
	files, _ := filepath.Glob(filepath.Join(goroot, "api", "go1.*.txt"))
	for _, fn := range files {
		var n int
		if _, err := fmt.Sscanf(filepath.Base(fn), "go1.%d.txt", &n); err != nil || n <= minor {
			continue
		}
		data, _ := os.ReadFile(fn)
		for _, ln := range strings.Split(string(data), "\n") {
			if !strings.HasPrefix(ln, "pkg ") {
				continue
			}
			rest := strings.TrimPrefix(ln, "pkg ")
			i := strings.Index(rest, ", ")
			if i < 0 {
				continue
			}
			pkg := rest[:i]
			if j := strings.Index(pkg, " ("); j > 0 {
				pkg = pkg[:j]
			}
			f := strings.Fields(rest[i+2:])
			if len(f) < 2 {
				continue
			}
			name := f[1]
			if k := strings.IndexAny(name, "(["); k > 0 {
				name = name[:k]
			}
			switch f[0] {
			case "func", "var", "const":
				laterCache[pkg+"."+name] = true
			case "type":
				if k := strings.Index(rest, "{"); k > 0 { // "type T interface { A, B }" declares T
					rest = rest[:k]
				}
				// "type T struct" declares T; "type T interface, M(...)" adds a method; "type T struct, F ..." adds a field
				if strings.Contains(rest[i+2:], ", ") {
					parts := strings.SplitN(rest[i+2:], ", ", 2)
					if strings.HasSuffix(parts[0], "interface") {
						m := parts[1]
						if k := strings.Index(m, "("); k > 0 {
							laterCache[pkg+"."+name+"."+m[:k]] = true
						}
					}
				} else {
					laterCache[pkg+"."+name] = true
				}
			}
		}
	}
	return laterCache
}

func runGoEnv(k string) string {
	out, err := exec.Command("go", "env", k).Output()
	if err != nil {
		return ""
	}
	return string(out)
}

// twinKey maps stdlib/go1_21_time.go and stdlib/go1_22_time.go to the same key.
func twinKey(file string) string {
	return strings.NewReplacer("go1_21_", "go1_XX_", "go1_22_", "go1_XX_").Replace(file)
}

// bindingsAllPlatforms (thorough tier): the syscall and unrestricted tables of every GOOS/GOARCH
// pair that has a generated file are type-checked against that platform's standard library.
func (r *Run) bindingsAllPlatforms(st *bindStats) {
	files, _ := filepath.Glob(filepath.Join(r.Repo, "stdlib/syscall/go1_22_syscall_*.go"))
	host := r.L
	done := 0
	var failed []string
	for _, f := range files {
		b := strings.TrimSuffix(strings.TrimPrefix(filepath.Base(f), "go1_22_syscall_"), ".go")
		parts := strings.SplitN(b, "_", 2)
		if len(parts) != 2 {
			continue
		}
		goos, goarch := parts[0], parts[1]
		if goos == "linux" && goarch == "amd64" {
			continue
		}
		L, err := Load(r.Repo, []string{"./stdlib/syscall", "./stdlib/unrestricted"}, "verif", "GOOS="+goos, "GOARCH="+goarch, "CGO_ENABLED=0")
		if err != nil {
			failed = append(failed, goos+"/"+goarch+": "+err.Error())
			msg := err.Error()
			if i := strings.Index(msg, "does not type-check"); i >= 0 {
				r.ground(goos+"_"+goarch+":stdlib/syscall/type-checks", "the shipped tables compile for "+goos+"/"+goarch, false, msg)
			}
			continue
		}
		r.ground(goos+"_"+goarch+":stdlib/syscall/type-checks", "the shipped tables compile for "+goos+"/"+goarch, true, "")
		L.specs, L.prelude = host.specs, host.prelude
		r.L = L
		before := len(r.Obls)
		sub := r.checkBindings([]string{"syscall", "unrestricted"}, false)
		st.entries += sub.entries
		st.tables += sub.tables
		st.complete += sub.complete
		for _, o := range r.Obls[before:] {
			o.Name = strings.Replace(o.Name, r.Prop+"/", r.Prop+"/"+goos+"_"+goarch+":", 1)
		}
		done++
	}
	r.L = host
	r.Extra["platforms_typed"] = done + 1
	if len(failed) > 0 {
		r.Extra["platforms_not_loadable"] = failed
	}
}
