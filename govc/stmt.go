package main

import (
	"fmt"
	"strings"
	"go/ast"
	"go/token"
	"go/types"
)

const maxPaths = 5000
const maxInlineDepth = 4

func (x *Exec) execBlock(stmts []ast.Stmt, st *State) []*State {
	cur := []*State{st}
	for _, s := range stmts {
		var next []*State
		for _, c := range cur {
			if c.out != outNormal {
				next = append(next, c)
				continue
			}
			for _, r := range x.execStmt(s, c) {
				if _, cut := r.names["$cut"]; cut {
					// `opt return-after = f`: the unit ends with the statement that called f
					delete(r.names, "$cut")
					if r.out == outNormal {
						r.out = outReturn
						r.rets = nil
					}
				}
				next = append(next, r)
			}
		}
		cur = next
		if len(cur) > maxPaths {
			engineFail("path cap exceeded (%d paths) in %s", len(cur), x.unit)
		}
	}
	return cur
}

// hoist executes, with forking, the calls inside e that must be inlined (same-package
// callees without contract, or callees whose panics/returns split paths) and records
// their results in st.calls so that eval stays non-forking.
func (x *Exec) hoist(e ast.Expr, st *State) []*State {
	if e == nil {
		return []*State{st}
	}
	var calls []*ast.CallExpr
	var guarded func(n ast.Node) bool
	guarded = func(n ast.Node) bool {
		switch n := n.(type) {
		case *ast.FuncLit:
			return false
		case *ast.CallExpr:
			// arguments first (evaluation order), then the call itself
			for _, a := range n.Args {
				ast.Inspect(a, guarded)
			}
			ast.Inspect(n.Fun, guarded)
			if x.needsInline(n) {
				calls = append(calls, n)
			}
			return false
		}
		return true
	}
	ast.Inspect(e, guarded)
	cur := []*State{st}
	for _, c := range calls {
		var next []*State
		for _, s := range cur {
			if s.out != outNormal {
				next = append(next, s)
				continue
			}
			if _, done := s.calls[c]; done {
				next = append(next, s)
				continue
			}
			next = append(next, x.inlineCall(c, s)...)
		}
		cur = next
	}
	return cur
}

func (x *Exec) calleeOf(c *ast.CallExpr) *types.Func {
	switch f := unparen(c.Fun).(type) {
	case *ast.Ident:
		if fn, ok := x.info().ObjectOf(f).(*types.Func); ok {
			return fn
		}
	case *ast.SelectorExpr:
		if sel, ok := x.info().Selections[f]; ok {
			if fn, ok := sel.Obj().(*types.Func); ok && sel.Kind() == types.MethodVal {
				return fn
			}
			return nil
		}
		if fn, ok := x.info().ObjectOf(f.Sel).(*types.Func); ok {
			return fn
		}
	}
	return nil
}

func (x *Exec) isOpaqueCallee(fn *types.Func) bool {
	if x.con == nil || fn == nil || fn.Pkg() == nil || !x.L.target[fn.Pkg().Path()] {
		return false
	}
	for _, n := range strings.Split(x.con.Opts["inline"], ",") {
		if strings.TrimSpace(n) == fn.Name() {
			return false
		}
	}
	for _, n := range strings.Split(x.con.Opts["opaque-calls"], ",") {
		n = strings.TrimSpace(n)
		if n != "" && (n == fn.Name() || n == "*") {
			return true
		}
	}
	return false
}

func (x *Exec) needsInline(c *ast.CallExpr) bool {
	fn := x.calleeOf(c)
	if fn == nil || fn.Pkg() == nil || !x.L.target[fn.Pkg().Path()] {
		return false
	}
	if x.isOpaqueCallee(fn) {
		return false
	}
	if x.con != nil {
		for _, n := range strings.Split(x.con.Opts["inline"], ",") {
			if strings.TrimSpace(n) == fn.Name() && x.L.funcDecl(fn) != nil {
				return true // the unit asks for the body, not the contract
			}
		}
	}
	if x.lookupContract(fn) != nil {
		return false
	}
	if _, ok := libModels[calleeName(fn)]; ok {
		return false
	}
	return x.L.funcDecl(fn) != nil
}

func (x *Exec) inlineCall(c *ast.CallExpr, st *State) []*State {
	fn := x.calleeOf(c)
	fd, fpkg := x.L.funcDeclPkg(fn)
	if fd.Body == nil {
		engineFail("cannot inline %s: no body", fn.Name())
	}
	if x.depth >= maxInlineDepth {
		engineFail("inline depth exceeded at %s (give it a contract)", fn.Name())
	}
	for _, n := range x.inlineStack {
		if n == fn.FullName() {
			engineFail("recursive call of %s needs a contract", fn.Name())
		}
	}
	args, _ := x.evalArgs(c.Args, st)
	var recv Value
	if se, ok := unparen(c.Fun).(*ast.SelectorExpr); ok {
		if sel, ok := x.info().Selections[se]; ok && sel.Kind() == types.MethodVal {
			recv, _ = x.eval(se.X, st)
		}
	}
	x.depth++
	x.inlineStack = append(x.inlineStack, fn.FullName())
	savePkg, saveRet, saveLoops := x.pkg, x.retObjs, x.loopOrd
	x.pkg = fpkg
	defer func() {
		x.depth--
		x.inlineStack = x.inlineStack[:len(x.inlineStack)-1]
		x.pkg, x.retObjs, x.loopOrd = savePkg, saveRet, saveLoops
	}()
	x.loopOrd = nil // loops in inlined callees need their own contract: flagged at the loop
	callee := st
	sig := fn.Type().(*types.Signature)
	if fd.Recv != nil && len(fd.Recv.List) > 0 && len(fd.Recv.List[0].Names) > 0 {
		callee.env[fpkg.TypesInfo.Defs[fd.Recv.List[0].Names[0]]] = recv
	}
	i := 0
	for _, f := range fd.Type.Params.List {
		for _, n := range f.Names {
			if i < len(args) {
				if o := fpkg.TypesInfo.Defs[n]; o != nil {
					callee.env[o] = x.passValue(callee, args[i], o.Type())
				}
			}
			i++
		}
	}
	x.retObjs = nil
	if fd.Type.Results != nil {
		for _, f := range fd.Type.Results.List {
			for _, n := range f.Names {
				o := fpkg.TypesInfo.Defs[n]
				x.retObjs = append(x.retObjs, o)
				if o != nil {
					callee.env[o] = x.zeroValue(callee, o.Type())
				}
			}
		}
	}
	outs := x.execBlock(fd.Body.List, callee)
	for _, o := range outs {
		switch o.out {
		case outReturn, outNormal:
			var v Value = intLit(0)
			if sig.Results().Len() == 1 && len(o.rets) == 1 {
				v = o.rets[0]
			} else if sig.Results().Len() > 1 {
				v = TupleV(o.rets)
			}
			o.calls[c] = v
			o.out = outNormal
			o.rets = nil
		case outPanic:
			// stays panicked
		default:
			engineFail("break/continue escaped inlined call of %s", fn.Name())
		}
	}
	return outs
}

// passValue: struct values are copied when passed by value.
func (x *Exec) passValue(st *State, v Value, t types.Type) Value {
	if x.isLocStruct(t) {
		r := x.newRef(st, "cp")
		x.copyStruct(st, t, r, asTerm(v))
		return r
	}
	return v
}

func (x *Exec) hoistAll(st *State, es ...ast.Expr) []*State {
	cur := []*State{st}
	for _, e := range es {
		var next []*State
		for _, s := range cur {
			if s.out != outNormal {
				next = append(next, s)
				continue
			}
			next = append(next, x.hoist(e, s)...)
		}
		cur = next
	}
	return cur
}

type pendingPanic struct{ cond, why string }

// addPendingPanic: the operation just evaluated panics when cond holds (in evaluation order).
func addPendingPanic(st *State, cond, why string) {
	pl, _ := st.names["$pendingPanicConds"].([]pendingPanic)
	st.names["$pendingPanicConds"] = append(append([]pendingPanic{}, pl...), pendingPanic{cond, why})
}

// forkPendingPanics: the statement just executed contained an operation that panics (under a
// condition, or possibly): returns the panicking continuations and leaves c as the normal one.
func (x *Exec) forkPendingPanics(c *State) []*State {
	var out []*State
	if pl, ok := c.names["$pendingPanicConds"].([]pendingPanic); ok {
		delete(c.names, "$pendingPanicConds")
		for _, pp := range pl {
			if c.out == outNormal && !c.infeasible(pp.cond) {
				p := c.clone()
				p.assume(pp.cond)
				p.out = outPanic
				p.note = pp.why
				out = append(out, p)
				c.assume(not(pp.cond))
			}
		}
	}
	if why, ok := c.names["$pendingPanic"]; ok {
		delete(c.names, "$pendingPanic")
		if c.out == outNormal {
			p := c.clone()
			p.out = outPanic
			p.note = fmt.Sprint(why) + " panics"
			out = append(out, p)
		}
	}
	return out
}

func (x *Exec) execStmt(s ast.Stmt, st *State) []*State {
	switch s := s.(type) {
	case *ast.BlockStmt:
		return x.execBlock(s.List, st)
	case *ast.EmptyStmt:
		return []*State{st}
	case *ast.ExprStmt:
		var out []*State
		for _, c := range x.hoist(s.X, st) {
			if c.out == outNormal {
				x.eval(s.X, c)
				out = append(out, x.forkPendingPanics(c)...)
			}
			out = append(out, c)
		}
		return out
	case *ast.DeclStmt:
		gd, ok := s.Decl.(*ast.GenDecl)
		if !ok || gd.Tok != token.VAR {
			return []*State{st}
		}
		cur := []*State{st}
		for _, sp := range gd.Specs {
			vs := sp.(*ast.ValueSpec)
			var next []*State
			for _, c := range cur {
				for _, c2 := range x.hoistAll(c, vs.Values...) {
					if c2.out == outNormal {
						x.execValueSpec(vs, c2)
					}
					next = append(next, c2)
				}
			}
			cur = next
		}
		return cur
	case *ast.AssignStmt:
		var out []*State
		all := append(append([]ast.Expr{}, s.Rhs...), s.Lhs...)
		for _, c := range x.hoistAll(st, all...) {
			if c.out == outNormal {
				x.execAssign(s, c)
				out = append(out, x.forkPendingPanics(c)...)
			}
			out = append(out, c)
		}
		return out
	case *ast.IncDecStmt:
		v, t := x.eval(s.X, st)
		a := asTerm(v)
		var nv Term
		if a.Sort.isBV() {
			op := "bvadd"
			if s.Tok == token.DEC {
				op = "bvsub"
			}
			nv = Term{fmt.Sprintf("(%s %s (_ bv1 %d))", op, a.S, a.Sort.width()), a.Sort}
		} else {
			op := "+"
			if s.Tok == token.DEC {
				op = "-"
			}
			nv = x.wrap(Term{"(" + op + " " + a.S + " 1)", SInt}, t)
		}
		x.assignTo(s.X, nv, t, st)
		return []*State{st}
	case *ast.ReturnStmt:
		var out []*State
		for _, c := range x.hoistAll(st, s.Results...) {
			if c.out != outNormal {
				out = append(out, c)
				continue
			}
			if x.con != nil && len(x.con.FnEnsures) > 0 && x.litDepth == 0 && len(s.Results) == 1 {
				if lit, ok := unparen(s.Results[0]).(*ast.FuncLit); ok {
					x.verifyInlineLit(lit, c, x.con.FnParams, x.con.FnResults, nil, x.con.FnEnsures, "fn")
				}
			}
			var rets []Value
			if len(s.Results) == 0 {
				for _, o := range x.retObjs {
					rets = append(rets, c.env[o])
				}
			} else {
				for _, r := range s.Results {
					v, _ := x.eval(r, c)
					if tup, ok := v.(TupleV); ok {
						rets = append(rets, tup...)
					} else {
						rets = append(rets, v)
					}
				}
			}
			if c.out == outNormal {
				c.out = outReturn
				c.rets = rets
			}
			out = append(out, c)
		}
		return out
	case *ast.IfStmt:
		return x.execIf(s, st)
	case *ast.ForStmt:
		return x.execFor(s, st)
	case *ast.RangeStmt:
		return x.execRange(s, st)
	case *ast.SwitchStmt:
		return x.execSwitch(s, st)
	case *ast.TypeSwitchStmt:
		return x.execTypeSwitch(s, st)
	case *ast.BranchStmt:
		switch s.Tok {
		case token.BREAK:
			st.out = outBreak
		case token.CONTINUE:
			st.out = outContinue
		default:
			engineFail("unsupported branch statement %s", s.Tok)
		}
		if s.Label != nil {
			st.label = s.Label.Name
		}
		return []*State{st}
	case *ast.LabeledStmt:
		outs := x.execStmt(s.Stmt, st)
		for _, o := range outs {
			if o.label == s.Label.Name && o.out == outBreak {
				o.out, o.label = outNormal, ""
			}
		}
		return outs
	case *ast.DeferStmt:
		return x.execDefer(s, st)
	case *ast.SelectStmt:
		return x.execSelect(s, st)
	case *ast.GoStmt:
		x.noteAssume("go statement: the spawned activation is not followed (arguments are evaluated)")
		x.evalArgs(s.Call.Args, st)
		return []*State{st}
	case *ast.SendStmt:
		x.eval(s.Chan, st)
		x.eval(s.Value, st)
		return []*State{st}
	}
	engineFail("unsupported statement %T", s)
	return nil
}

// execSelect: a select statement proceeds with any one of its communication clauses (which one is
// the scheduler's and the peers' choice): every clause is a possible continuation.  A received value
// is unconstrained; a send evaluates its operands.
func (x *Exec) execSelect(s *ast.SelectStmt, st *State) []*State {
	x.noteAssume("select statement: every communication clause is taken as a possible continuation; received values are unconstrained; blocking forever is not modelled")
	var out []*State
	for _, cl := range s.Body.List {
		cc := cl.(*ast.CommClause)
		t := st.clone()
		switch c := cc.Comm.(type) {
		case nil:
			t.trace = append(t.trace, "default")
		case *ast.SendStmt:
			x.eval(c.Chan, t)
			x.eval(c.Value, t)
		case *ast.ExprStmt:
			if u, ok := unparen(c.X).(*ast.UnaryExpr); ok {
				x.eval(u.X, t)
			}
		case *ast.AssignStmt:
			// v := <-ch / v, ok := <-ch / v = <-ch
			if u, ok := unparen(c.Rhs[0]).(*ast.UnaryExpr); ok {
				x.eval(u.X, t)
			}
			for _, l := range c.Lhs {
				id, ok := l.(*ast.Ident)
				if !ok || id.Name == "_" {
					continue
				}
				o := x.info().ObjectOf(id)
				if o == nil {
					continue
				}
				x.nfresh++
				t.env[o] = x.freshOf(t, fmt.Sprintf("recv_%s_%d", id.Name, x.nfresh), o.Type())
			}
		}
		for _, o := range x.execBlock(cc.Body, t) {
			if o.out == outBreak && o.label == "" {
				o.out = outNormal
			}
			out = append(out, o)
		}
	}
	return out
}

func (x *Exec) execDefer(s *ast.DeferStmt, st *State) []*State {
	// deferred mutex unlocks / pure bookkeeping are no-ops under A3; anything else must be
	// given as a separate proof unit by the property driver.
	if fn := x.calleeOf(s.Call); fn != nil {
		switch calleeName(fn) {
		case "sync.RWMutex.RUnlock", "sync.RWMutex.Unlock", "sync.Mutex.Unlock":
			return []*State{st}
		}
	}
	if x.con != nil && x.con.Opts["defer"] == "skip" {
		x.noteAssume("deferred call " + types.ExprString(s.Call.Fun) + " is verified as its own unit, not followed here")
		return []*State{st}
	}
	engineFail("unsupported defer of %s", types.ExprString(s.Call.Fun))
	return nil
}

func (x *Exec) execValueSpec(vs *ast.ValueSpec, st *State) {
	if len(vs.Values) == 0 {
		for _, n := range vs.Names {
			o := x.info().Defs[n]
			if o != nil {
				st.env[o] = x.zeroValue(st, o.Type())
			}
		}
		return
	}
	if len(vs.Values) == 1 && len(vs.Names) > 1 {
		v, _ := x.eval(vs.Values[0], st)
		tup := v.(TupleV)
		for i, n := range vs.Names {
			if o := x.info().Defs[n]; o != nil {
				st.env[o] = tup[i]
			}
		}
		return
	}
	for i, n := range vs.Names {
		v, _ := x.eval(vs.Values[i], st)
		if o := x.info().Defs[n]; o != nil {
			st.env[o] = x.passValue(st, v, o.Type())
		}
	}
}

func (x *Exec) execAssign(s *ast.AssignStmt, st *State) {
	if s.Tok != token.ASSIGN && s.Tok != token.DEFINE {
		// compound assignment
		op := map[token.Token]token.Token{token.ADD_ASSIGN: token.ADD, token.SUB_ASSIGN: token.SUB, token.MUL_ASSIGN: token.MUL,
			token.QUO_ASSIGN: token.QUO, token.REM_ASSIGN: token.REM, token.AND_ASSIGN: token.AND, token.OR_ASSIGN: token.OR,
			token.XOR_ASSIGN: token.XOR, token.SHL_ASSIGN: token.SHL, token.SHR_ASSIGN: token.SHR, token.AND_NOT_ASSIGN: token.AND_NOT}[s.Tok]
		be := &ast.BinaryExpr{X: s.Lhs[0], Op: op, Y: s.Rhs[0], OpPos: s.TokPos}
		t := x.typeOf(s.Lhs[0])
		x.info().Types[be] = types.TypeAndValue{Type: t}
		v, _ := x.evalBinary(be, st)
		delete(x.info().Types, be)
		x.assignTo(s.Lhs[0], v, t, st)
		return
	}
	if len(s.Rhs) == 1 && len(s.Lhs) > 1 {
		var tup TupleV
		switch r := unparen(s.Rhs[0]).(type) {
		case *ast.IndexExpr: // v, ok := m[k]
			mv, mt := x.eval(r.X, st)
			k := x.evalT(r.Index, st)
			u := mt.Underlying().(*types.Map)
			ks, vs := x.sortOf(u.Key()), x.sortOf(u.Elem())
			m := asTerm(mv)
			has := Term{and("(not (= "+m.S+" 0))", "(select "+x.mapHas(st, m, ks, vs).S+" "+k.S+")"), SBool}
			val := Term{"(select " + x.mapVal(st, m, ks, vs).S + " " + k.S + ")", vs}
			tup = TupleV{ite(has.S, val, zeroOf(vs)), has}
		case *ast.TypeAssertExpr:
			v, _ := x.eval(r.X, st)
			t := x.typeOf(r.Type)
			ok := x.uf("assertok_"+sanitize(types.TypeString(t, nil)), SBool, asTerm(v))
			val := x.uf("assert_"+sanitize(types.TypeString(t, nil)), x.sortOf(t), asTerm(v))
			tup = TupleV{ite(ok.S, val, zeroOf(x.sortOf(t))), ok}
		case *ast.UnaryExpr: // v, ok := <-ch
			x.eval(r.X, st)
			var et types.Type
			if c, ok := x.typeOf(r.X).Underlying().(*types.Chan); ok {
				et = c.Elem()
			}
			tup = TupleV{x.fresh("recv", x.sortOf(et)), x.fresh("recvok", SBool)}
		default:
			v, _ := x.eval(s.Rhs[0], st)
			var ok bool
			tup, ok = v.(TupleV)
			if !ok {
				engineFail("multi-value assignment from %s", types.ExprString(s.Rhs[0]))
			}
		}
		for i, l := range s.Lhs {
			x.assignLhs(l, tup[i], s.Tok == token.DEFINE, st)
		}
		return
	}
	// evaluate all right-hand sides first
	var vals []Value
	var typs []types.Type
	for _, r := range s.Rhs {
		v, t := x.eval(r, st)
		vals = append(vals, v)
		typs = append(typs, t)
	}
	for i, l := range s.Lhs {
		v := vals[i]
		if x.isLocStruct(typs[i]) {
			if _, isLit := unparen(s.Rhs[i]).(*ast.CompositeLit); !isLit {
				v = x.passValue(st, v, typs[i])
			}
		}
		x.assignLhs(l, v, s.Tok == token.DEFINE, st)
	}
}

func (x *Exec) assignLhs(l ast.Expr, v Value, define bool, st *State) {
	if id, ok := l.(*ast.Ident); ok {
		if id.Name == "_" {
			return
		}
		o := x.info().ObjectOf(id)
		if o == nil {
			engineFail("unresolved assignment target %s", id.Name)
		}
		if _, isLocal := st.env[o]; isLocal || define || o.Parent() != o.Pkg().Scope() {
			if t, ok := v.(Term); ok {
				want := x.sortOf(o.Type())
				if t.Sort != want {
					_, t = x.unifySorts(Term{"", want}, t)
					v = t
				}
			}
			st.env[o] = v
			return
		}
	}
	x.assignTo(l, v, x.typeOf(l), st)
}

// assignTo stores v into the location denoted by l.
func (x *Exec) assignTo(l ast.Expr, v Value, t types.Type, st *State) {
	switch l := unparen(l).(type) {
	case *ast.Ident:
		if l.Name == "_" {
			return
		}
		o := x.info().ObjectOf(l)
		if _, ok := st.env[o]; ok {
			st.env[o] = v
			return
		}
		if vo, ok := o.(*types.Var); ok && (vo.Parent() == vo.Pkg().Scope()) {
			st.heap[globalKey(vo)] = asTerm(v)
			return
		}
		st.env[o] = v
	case *ast.SelectorExpr:
		sel, ok := x.info().Selections[l]
		if !ok {
			o := x.info().ObjectOf(l.Sel)
			if vo, ok := o.(*types.Var); ok {
				st.heap[globalKey(vo)] = asTerm(v)
				return
			}
			engineFail("unsupported assignment target %s", types.ExprString(l))
		}
		bv, bt := x.eval(l.X, st)
		path := sel.Index()
		cur, ct := x.walkFields(st, asTerm(bv), bt, path[:len(path)-1], l)
		if p, ok := ct.Underlying().(*types.Pointer); ok {
			x.safety(st, "nil-deref", l.X, "(not (= "+asTerm(cur).S+" 0))")
			ct = p.Elem()
		}
		f := ct.Underlying().(*types.Struct).Field(path[len(path)-1])
		if x.isLocStruct(f.Type()) {
			x.copyStruct(st, f.Type(), x.subRef(ct, f, asTerm(cur)), asTerm(v))
			return
		}
		if fv, ok := v.(*FuncV); ok {
			if fv.Lit != nil && f.Name() == "exec" && x.con != nil && x.con.Opts["gen"] == "true" && x.litDepth == 0 {
				x.verifyInlineLit(fv.Lit, st, x.con.ExecParams, x.con.ExecResults, x.con.ExecRequires, x.con.ExecEnsures, "exec")
			}
			x.fieldWrite(st, ct, f, asTerm(cur), x.fresh("fn", SInt))
			return
		}
		x.fieldWrite(st, ct, f, asTerm(cur), asTerm(v))
	case *ast.IndexExpr:
		bv, bt := x.eval(l.X, st)
		idx := x.evalT(l.Index, st)
		base := asTerm(bv)
		if _, isFn := v.(*FuncV); isFn {
			// function values stored in containers are opaque
			v = x.fresh("fn", SInt)
		}
		switch u := bt.Underlying().(type) {
		case *types.Slice:
			es := x.sortOf(u.Elem())
			x.safety(st, "index", l, "(and (<= 0 "+idx.S+") (< "+idx.S+" "+x.slen(base).S+"))")
			arr := x.sliceArr(st, base, es, u.Elem())
			if x.isLocStruct(u.Elem()) {
				// a struct value is copied into the element variable
				x.copyStruct(st, u.Elem(), Term{"(select " + arr.S + " " + idx.S + ")", SInt}, asTerm(v))
				return
			}
			x.sliceSetArr(st, base, es, Term{"(store " + arr.S + " " + idx.S + " " + asTerm(v).S + ")", arr.Sort}, u.Elem())
		case *types.Array:
			es := x.sortOf(u.Elem())
			arr := x.sliceArr(st, base, es, u.Elem())
			x.sliceSetArr(st, base, es, Term{"(store " + arr.S + " " + idx.S + " " + asTerm(v).S + ")", arr.Sort}, u.Elem())
		case *types.Map:
			ks, vs := x.sortOf(u.Key()), x.sortOf(u.Elem())
			x.safety(st, "nil-map-write", l, "(not (= "+base.S+" 0))")
			has, val := x.mapHas(st, base, ks, vs), x.mapVal(st, base, ks, vs)
			x.mapSet(st, base, ks, vs, Term{"(store " + has.S + " " + idx.S + " true)", has.Sort}, Term{"(store " + val.S + " " + idx.S + " " + asTerm(v).S + ")", val.Sort})
		default:
			engineFail("unsupported index assignment on %s", bt)
		}
	case *ast.StarExpr:
		pv, pt := x.eval(l.X, st)
		p := asTerm(pv)
		et := pt.Underlying().(*types.Pointer).Elem()
		x.safety(st, "nil-deref", l.X, "(not (= "+p.S+" 0))")
		if x.isLocStruct(et) {
			x.copyStruct(st, et, p, asTerm(v))
			return
		}
		s := x.sortOf(et)
		key := "PT_" + sanitize(string(s))
		arr := x.heapGet(st, key, arraySort(SInt, s))
		st.heap[key] = Term{"(store " + arr.S + " " + p.S + " " + asTerm(v).S + ")", arr.Sort}
	default:
		engineFail("unsupported assignment target %T", l)
	}
}

func (x *Exec) execIf(s *ast.IfStmt, st *State) []*State {
	var out []*State
	starts := []*State{st}
	if s.Init != nil {
		starts = x.execStmt(s.Init, st)
	}
	for _, c0 := range starts {
		if c0.out != outNormal {
			out = append(out, c0)
			continue
		}
		for _, c := range x.hoistCond(s.Cond, c0) {
			if c.out != outNormal {
				out = append(out, c)
				continue
			}
			cond := x.evalBool(s.Cond, c)
			genUnit := x.con != nil && x.con.Opts["gen"] == "true" && x.litDepth == 0
			if !c.infeasible(cond) {
				t := c.clone()
				t.assume(cond)
				if genUnit {
					t.trace = append(t.trace, traceLabel(s.Cond))
				}
				out = append(out, x.execBlock(s.Body.List, t)...)
			}
			if c.infeasible(not(cond)) {
				continue
			}
			f := c
			f.assume(not(cond))
			if genUnit {
				f.trace = append(f.trace, "!"+traceLabel(s.Cond))
			}
			if s.Else != nil {
				out = append(out, x.execStmt(s.Else, f)...)
			} else {
				out = append(out, f)
			}
		}
	}
	return out
}

// hoistCond hoists inlined calls of a condition respecting && / || short-circuit order.
func (x *Exec) hoistCond(e ast.Expr, st *State) []*State {
	if be, ok := unparen(e).(*ast.BinaryExpr); ok && (be.Op == token.LAND || be.Op == token.LOR) {
		if !x.containsInline(be.Y) {
			return x.hoistCond(be.X, st)
		}
		var out []*State
		for _, c := range x.hoistCond(be.X, st) {
			if c.out != outNormal {
				out = append(out, c)
				continue
			}
			a := x.evalBool(be.X, c)
			if be.Op == token.LOR {
				a = not(a)
			}
			// RHS evaluated only when needed
			skip := c.clone()
			skip.assume(not(a))
			x.stubCalls(be.Y, skip)
			out = append(out, skip)
			c.assume(a)
			out = append(out, x.hoistCond(be.Y, c)...)
		}
		return out
	}
	return x.hoist(e, st)
}

func (x *Exec) containsInline(e ast.Expr) bool {
	found := false
	ast.Inspect(e, func(n ast.Node) bool {
		if c, ok := n.(*ast.CallExpr); ok && x.needsInline(c) {
			found = true
		}
		_, lit := n.(*ast.FuncLit)
		return !found && !lit
	})
	return found
}

// stubCalls gives the inlinable calls of a never-evaluated operand an arbitrary value.
func (x *Exec) stubCalls(e ast.Expr, st *State) {
	ast.Inspect(e, func(n ast.Node) bool {
		if c, ok := n.(*ast.CallExpr); ok && x.needsInline(c) {
			st.calls[c] = x.opaqueResult(c, st)
		}
		_, lit := n.(*ast.FuncLit)
		return !lit
	})
}

func (x *Exec) execSwitch(s *ast.SwitchStmt, st *State) []*State {
	var out []*State
	starts := []*State{st}
	if s.Init != nil {
		starts = x.execStmt(s.Init, st)
	}
	for _, c0 := range starts {
		if c0.out != outNormal {
			out = append(out, c0)
			continue
		}
		var tagStates []*State
		if s.Tag != nil {
			tagStates = x.hoist(s.Tag, c0)
		} else {
			tagStates = []*State{c0}
		}
		for _, c := range tagStates {
			if c.out != outNormal {
				out = append(out, c)
				continue
			}
			out = append(out, x.switchClauses(s, c)...)
		}
	}
	// break inside switch terminates the switch
	for _, o := range out {
		if o.out == outBreak && o.label == "" {
			o.out = outNormal
		}
	}
	return out
}

func (x *Exec) switchClauses(s *ast.SwitchStmt, st *State) []*State {
	var tag Term
	var tagT types.Type
	if s.Tag != nil {
		v, t := x.eval(s.Tag, st)
		tag, tagT = asTerm(v), t
	}
	var out []*State
	rest := []*State{st}
	var deflt *ast.CaseClause
	for _, cl := range s.Body.List {
		cc := cl.(*ast.CaseClause)
		if cc.List == nil {
			deflt = cc
			continue
		}

		var nextRest []*State
		for _, r := range rest {
			// guards are evaluated in order; each may need hoisting (tagless switch with calls)
			cur := []*State{r}
			for _, g := range cc.List {
				var nxt []*State
				for _, c := range cur {
					if c.out != outNormal {
						out = append(out, c)
						continue
					}
					for _, h := range x.hoistCond(g, c) {
						if h.out != outNormal {
							out = append(out, h)
							continue
						}
						var cond string
						if s.Tag != nil {
							gv, _ := x.eval(g, h)
							a, b := x.unifySorts(tag, asTerm(gv))
							_ = tagT
							cond = eq(a, b)
						} else {
							cond = x.evalBool(g, h)
						}
						t := h.clone()
						t.assume(cond)
						t.trace = append(t.trace, traceLabel(g))
						out = append(out, x.execClauseBody(s, cc, t)...)
						h.assume(not(cond))
						nxt = append(nxt, h)
					}
				}
				cur = nxt
			}
			nextRest = append(nextRest, cur...)
		}
		rest = nextRest
	}
	for _, r := range rest {
		if deflt != nil {
			r.trace = append(r.trace, "default")
			out = append(out, x.execClauseBody(s, deflt, r)...)
		} else {
			out = append(out, r)
		}
	}
	return out
}

func (x *Exec) execTypeSwitch(s *ast.TypeSwitchStmt, st *State) []*State {
	// the dynamic type is an uninterpreted tag of the operand; clauses test it in order
	var operand ast.Expr
	var bind *ast.Ident
	switch a := s.Assign.(type) {
	case *ast.ExprStmt:
		operand = a.X.(*ast.TypeAssertExpr).X
	case *ast.AssignStmt:
		operand = a.Rhs[0].(*ast.TypeAssertExpr).X
		bind = a.Lhs[0].(*ast.Ident)
	}
	_ = bind
	var out []*State
	for _, c := range x.hoist(operand, st) {
		if c.out != outNormal {
			out = append(out, c)
			continue
		}
		v := x.evalT(operand, c)
		dyn := x.uf("dyntype", SInt, v)
		rest := c
		var deflt *ast.CaseClause
		for _, cl := range s.Body.List {
			cc := cl.(*ast.CaseClause)
			if cc.List == nil {
				deflt = cc
				continue
			}
			var conds []string
			for _, te := range cc.List {
				if id, ok := te.(*ast.Ident); ok && id.Name == "nil" {
					conds = append(conds, "(= "+v.S+" 0)")
					continue
				}
				tt := x.typeOf(te)
				conds = append(conds, "(= "+dyn.S+" "+x.uf("type_"+sanitize(types.TypeString(tt, nil)), SInt).S+")")
			}
			cond := or(conds...)
			t := rest.clone()
			t.assume(cond)
			if o := x.info().Implicits[cc]; o != nil {
				if len(cc.List) == 1 {
					t.env[o] = x.uf("assert_"+sanitize(types.TypeString(o.Type(), nil)), x.sortOf(o.Type()), v)
				} else {
					t.env[o] = v
				}
			}
			out = append(out, x.execBlock(cc.Body, t)...)
			rest.assume(not(cond))
		}
		if deflt != nil {
			if o := x.info().Implicits[deflt]; o != nil {
				rest.env[o] = v
			}
			out = append(out, x.execBlock(deflt.Body, rest)...)
		} else {
			out = append(out, rest)
		}
	}
	for _, o := range out {
		if o.out == outBreak && o.label == "" {
			o.out = outNormal
		}
	}
	return out
}

// traceLabel is the short, source-derived label of a guard: it names a path of a generator.
func traceLabel(e ast.Expr) string {
	t := types.ExprString(e)
	t = strings.TrimPrefix(t, "reflect.")
	t = strings.ReplaceAll(t, " ", "")
	return t
}

// execClauseBody runs a case body; a trailing fallthrough continues with the next clause's body.
func (x *Exec) execClauseBody(s *ast.SwitchStmt, cc *ast.CaseClause, st *State) []*State {
	body := cc.Body
	ft := false
	if n := len(body); n > 0 {
		if b, ok := body[n-1].(*ast.BranchStmt); ok && b.Tok == token.FALLTHROUGH {
			ft = true
			body = body[:n-1]
		}
	}
	outs := x.execBlock(body, st)
	if !ft {
		return outs
	}
	var next *ast.CaseClause
	for i, cl := range s.Body.List {
		if cl == ast.Stmt(cc) && i+1 < len(s.Body.List) {
			next = s.Body.List[i+1].(*ast.CaseClause)
		}
	}
	if next == nil {
		return outs
	}
	var res []*State
	for _, o := range outs {
		if o.out != outNormal {
			res = append(res, o)
			continue
		}
		res = append(res, x.execClauseBody(s, next, o)...)
	}
	return res
}
