package main

import (
	"fmt"
	"go/ast"
	"go/types"
	"math/big"
	"strings"
)

type Sort string

const (
	SInt  Sort = "Int"
	SBool Sort = "Bool"
	SStr  Sort = "String"
)

func BV(n int) Sort { return Sort(fmt.Sprintf("(_ BitVec %d)", n)) }
func (s Sort) isBV() bool {
	return strings.HasPrefix(string(s), "(_ BitVec")
}
func (s Sort) width() int {
	var n int
	fmt.Sscanf(string(s), "(_ BitVec %d)", &n)
	return n
}
func arraySort(k, v Sort) Sort { return Sort("(Array " + string(k) + " " + string(v) + ")") }

// Term is an SMT term with its sort.
type Term struct {
	S    string
	Sort Sort
}

type Value interface{}

// TupleV is the value of a multi-result call.
type TupleV []Value

// FuncV is a function value: a literal with its captured state, a declared function,
// or a modelled function value (result of a generator with a function-result contract).
type FuncV struct {
	Lit   *ast.FuncLit
	Decl  *types.Func
	Env   *State
	Model *FnModel
	Recv  Value // bound receiver for method values
}

// FnModel describes what applying a modelled function value yields.
type FnModel struct {
	Name string
	Args []Value
	// Apply returns the results of calling the function value with args in st.
	Apply func(x *Exec, st *State, args []Value) Value
}

type engineErr struct{ msg string }

func (e engineErr) Error() string { return e.msg }

func engineFail(format string, a ...interface{}) {
	panic(engineErr{fmt.Sprintf(format, a...)})
}

func T(sort Sort, format string, a ...interface{}) Term {
	return Term{S: fmt.Sprintf(format, a...), Sort: sort}
}

func intLit(n int64) Term {
	if n < 0 {
		return Term{fmt.Sprintf("(- %d)", -n), SInt}
	}
	return Term{fmt.Sprintf("%d", n), SInt}
}

func bigLit(b *big.Int) Term {
	if b.Sign() < 0 {
		return Term{"(- " + new(big.Int).Neg(b).String() + ")", SInt}
	}
	return Term{b.String(), SInt}
}

func bvLit(b *big.Int, w int) Term {
	m := new(big.Int).Lsh(big.NewInt(1), uint(w))
	v := new(big.Int).Mod(b, m)
	return Term{fmt.Sprintf("(_ bv%s %d)", v.String(), w), BV(w)}
}

func boolLit(b bool) Term {
	if b {
		return Term{"true", SBool}
	}
	return Term{"false", SBool}
}

// strLit renders a Go string as an SMT-LIB string literal (printable ASCII kept, the rest \u{..}).
func strLit(s string) Term {
	var b strings.Builder
	b.WriteByte('"')
	for i := 0; i < len(s); i++ {
		c := s[i]
		switch {
		case c == '"':
			b.WriteString("\"\"")
		case c == '\\':
			b.WriteString("\\u{5c}")
		case c >= 32 && c < 127:
			b.WriteByte(c)
		default:
			fmt.Fprintf(&b, "\\u{%x}", c)
		}
	}
	b.WriteByte('"')
	return Term{b.String(), SStr}
}

func and(ts ...string) string {
	var xs []string
	for _, t := range ts {
		if t == "true" || t == "" {
			continue
		}
		xs = append(xs, t)
	}
	switch len(xs) {
	case 0:
		return "true"
	case 1:
		return xs[0]
	}
	return "(and " + strings.Join(xs, " ") + ")"
}

func or(ts ...string) string {
	var xs []string
	for _, t := range ts {
		if t == "false" || t == "" {
			continue
		}
		xs = append(xs, t)
	}
	switch len(xs) {
	case 0:
		return "false"
	case 1:
		return xs[0]
	}
	return "(or " + strings.Join(xs, " ") + ")"
}

func not(t string) string {
	switch t {
	case "true":
		return "false"
	case "false":
		return "true"
	}
	if strings.HasPrefix(t, "(not ") && balanced(t[5:len(t)-1]) {
		return t[5 : len(t)-1]
	}
	return "(not " + t + ")"
}

func balanced(s string) bool {
	d := 0
	inStr := false
	for i := 0; i < len(s); i++ {
		c := s[i]
		if inStr {
			if c == '"' {
				inStr = false
			}
			continue
		}
		switch c {
		case '"':
			inStr = true
		case '(':
			d++
		case ')':
			d--
			if d < 0 {
				return false
			}
		}
	}
	return d == 0
}

func implies(a, b string) string {
	if a == "true" {
		return b
	}
	return "(=> " + a + " " + b + ")"
}

func eq(a, b Term) string {
	return "(= " + a.S + " " + b.S + ")"
}

func ite(c string, a, b Term) Term {
	if c == "true" {
		return a
	}
	if c == "false" {
		return b
	}
	return Term{"(ite " + c + " " + a.S + " " + b.S + ")", a.Sort}
}

func sanitize(s string) string {
	var b strings.Builder
	for _, r := range s {
		switch {
		case r >= 'a' && r <= 'z', r >= 'A' && r <= 'Z', r >= '0' && r <= '9', r == '_':
			b.WriteRune(r)
		case r == '.' || r == '/' || r == '*' || r == '-':
			b.WriteByte('_')
		default:
			b.WriteByte('_')
		}
	}
	return b.String()
}

// State is one symbolic execution path.
type State struct {
	env   map[types.Object]Value
	names map[string]Value
	heap  map[string]Term
	pc    []string
	calls map[*ast.CallExpr]Value
	out   int
	rets  []Value
	label string // break/continue label
	note  string // panic note
	old   *State // pre-state of the unit (for old())
	trace []string
}

const (
	outNormal = iota
	outBreak
	outContinue
	outReturn
	outPanic
)

func newState() *State {
	return &State{env: map[types.Object]Value{}, names: map[string]Value{}, heap: map[string]Term{}, calls: map[*ast.CallExpr]Value{}}
}

func (s *State) clone() *State {
	n := &State{env: make(map[types.Object]Value, len(s.env)), names: make(map[string]Value, len(s.names)),
		heap: make(map[string]Term, len(s.heap)), calls: make(map[*ast.CallExpr]Value, len(s.calls)),
		out: s.out, rets: s.rets, label: s.label, note: s.note, old: s.old}
	for k, v := range s.env {
		n.env[k] = v
	}
	for k, v := range s.names {
		n.names[k] = v
	}
	for k, v := range s.heap {
		n.heap[k] = v
	}
	for k, v := range s.calls {
		n.calls[k] = v
	}
	n.pc = append([]string(nil), s.pc...)
	n.trace = append([]string(nil), s.trace...)
	return n
}

func (s *State) assume(c string) {
	if c == "true" {
		return
	}
	s.pc = append(s.pc, c)
}

// infeasible reports a syntactic contradiction: c is false, or its negation is already assumed.
func (s *State) infeasible(c string) bool {
	if c == "false" {
		return true
	}
	n := not(c)
	for _, p := range s.pc {
		if p == n {
			return true
		}
	}
	return false
}

func (s *State) pcTerm() string { return and(s.pc...) }
