package main

import (
	"strings"
	"fmt"
	"go/ast"
	"go/token"
	"go/types"
)

func (x *Exec) loopSpecOf(s ast.Stmt) *LoopSpec {
	if (x.loopOrd == nil || x.con == nil) && x.con != nil && x.con.Opts["loops"] == "havoc" {
		return &LoopSpec{}
	}
	if x.loopOrd == nil || x.con == nil {
		engineFail("loop inside an inlined function (%v): the function needs its own contract with a loop invariant", x.inlineStack)
	}
	n, ok := x.loopOrd[s]
	if !ok {
		engineFail("loop not numbered in %s", x.unit)
	}
	if x.loopSeen == nil {
		x.loopSeen = map[int]bool{}
	}
	x.loopSeen[n] = true
	sp := x.con.Loops[n]
	if sp == nil {
		if x.con.Opts["loops"] == "havoc" {
			x.noteAssume(fmt.Sprintf("loop %d of %s abstracted (no invariant): everything it assigns is havocked, its body is checked from an arbitrary iteration", n, x.unit))
			return &LoopSpec{}
		}
		// a loop without invariant (e.g. one introduced by a change to the code) is checked with the
		// invariant `true`: sound, and obligations that depended on what the loop does are left to fail
		x.noteAssume(fmt.Sprintf("loop %d of %s has no invariant in the contract file: abstracted with invariant true (everything it assigns is havocked)", n, x.unit))
		return &LoopSpec{}
	}
	return sp
}

type modSet struct {
	vars    map[types.Object]bool
	heap    map[string]bool
	visited map[*types.Func]bool
	// map heaps written only through local map variables: the variables per heap key (nil entry once a
	// write through any other expression was seen)
	mapVars map[string][]types.Object
}

func (ms *modSet) noteMapWrite(keys []string, o types.Object) {
	if ms.mapVars == nil {
		ms.mapVars = map[string][]types.Object{}
	}
	for _, k := range keys {
		cur, seen := ms.mapVars[k]
		switch {
		case o == nil:
			ms.mapVars[k] = nil
		case !seen:
			ms.mapVars[k] = []types.Object{o}
		case cur != nil:
			ms.mapVars[k] = append(cur, o)
		}
	}
}

// modified computes the variables and heap keys a statement may assign.
func (x *Exec) modified(n ast.Node, ms *modSet) {
	info := x.info()
	var root func(e ast.Expr)
	root = func(e ast.Expr) {
		switch e := unparen(e).(type) {
		case *ast.Ident:
			if o := info.ObjectOf(e); o != nil {
				if v, ok := o.(*types.Var); ok && v.Pkg() != nil && v.Parent() == v.Pkg().Scope() {
					ms.heap[globalKey(v)] = true
				} else {
					ms.vars[o] = true
				}
			}
		case *ast.SelectorExpr:
			if sel, ok := info.Selections[e]; ok {
				t := info.TypeOf(e.X)
				path := sel.Index()
				for i, idx := range path {
					if p, ok := t.Underlying().(*types.Pointer); ok {
						t = p.Elem()
					}
					f := t.Underlying().(*types.Struct).Field(idx)
					if i == len(path)-1 {
						x.modField(t, f, ms)
					}
					t = f.Type()
				}
			} else if v, ok := info.ObjectOf(e.Sel).(*types.Var); ok {
				ms.heap[globalKey(v)] = true
			}
		case *ast.IndexExpr:
			t := info.TypeOf(e.X)
			switch u := t.Underlying().(type) {
			case *types.Slice:
				ms.heap[x.seKey(x.sortOf(u.Elem()), u.Elem())] = true
			case *types.Array:
				ms.heap[x.seKey(x.sortOf(u.Elem()), u.Elem())] = true
			case *types.Map:
				hk, vk := x.mapKeys(x.sortOf(u.Key()), x.sortOf(u.Elem()))
				ms.heap[hk], ms.heap[vk] = true, true
				var mo types.Object
				if id, ok := unparen(e.X).(*ast.Ident); ok {
					if v, ok := info.ObjectOf(id).(*types.Var); ok && v.Pkg() != nil && v.Parent() != v.Pkg().Scope() {
						mo = v
					}
				}
				ms.noteMapWrite([]string{hk, vk}, mo)
			}
		case *ast.StarExpr:
			t := info.TypeOf(e.X)
			if p, ok := t.Underlying().(*types.Pointer); ok {
				if x.isLocStruct(p.Elem()) {
					s := p.Elem().Underlying().(*types.Struct)
					for i := 0; i < s.NumFields(); i++ {
						x.modField(p.Elem(), s.Field(i), ms)
					}
				} else {
					ms.heap["PT_"+sanitize(string(x.sortOf(p.Elem())))] = true
				}
			}
		}
	}
	ast.Inspect(n, func(n ast.Node) bool {
		switch n := n.(type) {
		case *ast.FuncLit:
			return false
		case *ast.AssignStmt:
			for _, l := range n.Lhs {
				root(l)
			}
		case *ast.IncDecStmt:
			root(n.X)
		case *ast.RangeStmt:
			if n.Key != nil {
				root(n.Key)
			}
			if n.Value != nil {
				root(n.Value)
			}
		case *ast.CallExpr:
			if id, ok := unparen(n.Fun).(*ast.Ident); ok {
				if b, ok := info.ObjectOf(id).(*types.Builtin); ok {
					if b.Name() == "delete" {
						root(&ast.IndexExpr{X: n.Args[0]})
					}
					return true
				}
			}
			fn := x.calleeOf(n)
			if fn == nil {
				return true
			}
			if c := x.lookupContract(fn); c != nil {
				for _, a := range c.Assigns {
					ms.heap[a] = true
					ms.noteMapWrite([]string{a}, nil)
				}
				if c.HasMod {
					sig := fn.Type().(*types.Signature)
					for _, m := range c.Modifies {
						if i := strings.LastIndex(m, "."); i > 0 {
							// the whole field array (sound over-approximation inside loops)
							for pi, pn := range c.Params {
								if pn != m[:i] {
									continue
								}
								var pt types.Type
								if sig.Recv() != nil {
									if pi == 0 {
										pt = sig.Recv().Type()
									} else if pi-1 < sig.Params().Len() {
										pt = sig.Params().At(pi - 1).Type()
									}
								} else if pi < sig.Params().Len() {
									pt = sig.Params().At(pi).Type()
								}
								if pt == nil {
									continue
								}
								if p, ok := pt.Underlying().(*types.Pointer); ok {
									pt = p.Elem()
								}
								if stt, ok := pt.Underlying().(*types.Struct); ok {
									for k := 0; k < stt.NumFields(); k++ {
										if stt.Field(k).Name() == m[i+1:] {
											ms.heap[x.fieldKey(pt, stt.Field(k))] = true
										}
									}
								}
							}
						}
					}
				}
				return true
			}
			if x.isOpaqueCallee(fn) && x.con != nil && x.con.Opts["opaque-havoc"] == "none" {
				return true // declared to leave the modelled heap unchanged
			}
			if fn.Pkg() != nil && x.L.target[fn.Pkg().Path()] && !ms.visited[fn] {
				ms.visited[fn] = true
				if fd, fpkg := x.L.funcDeclPkg(fn); fd != nil && fd.Body != nil {
					save := x.pkg
					x.pkg = fpkg
					sub := &modSet{vars: map[types.Object]bool{}, heap: ms.heap, visited: ms.visited}
					x.modified(fd.Body, sub)
					x.pkg = save
				}
			}
			switch calleeName(fn) {
			case "atomic.StoreUint64", "atomic.AddUint64", "atomic.AddInt64", "atomic.StoreInt32":
				if u, ok := unparen(n.Args[0]).(*ast.UnaryExpr); ok {
					root(u.X)
				}
			}
		}
		return true
	})
}

func (x *Exec) modField(owner types.Type, f *types.Var, ms *modSet) {
	if x.isLocStruct(f.Type()) {
		s := f.Type().Underlying().(*types.Struct)
		for i := 0; i < s.NumFields(); i++ {
			x.modField(f.Type(), s.Field(i), ms)
		}
		return
	}
	ms.heap[x.fieldKey(owner, f)] = true
}

func (x *Exec) havoc(st *State, n ast.Node) {
	ms := &modSet{vars: map[types.Object]bool{}, heap: map[string]bool{}, visited: map[*types.Func]bool{}}
	x.modified(n, ms)
	for o := range ms.vars {
		if v, ok := st.env[o]; ok {
			if _, isT := v.(Term); isT {
				st.env[o] = x.freshOf(st, "hv_"+o.Name(), o.Type())
			}
		}
	}
	for _, k := range sortedKeys(ms.heap) {
		// a map heap written only through local map variables the loop does not reassign: only the rows
		// of those maps change (other maps of the same key/value sorts keep their contents)
		if objs := ms.mapVars[k]; len(objs) > 0 {
			precise := true
			var refs []Term
			for _, o := range objs {
				v, ok := st.env[o].(Term)
				if ms.vars[o] || !ok {
					precise = false
					break
				}
				refs = append(refs, v)
			}
			if cur, ok := st.heap[k]; precise && ok && strings.HasPrefix(string(cur.Sort), "(Array Int ") {
				row := Sort(strings.TrimSuffix(strings.TrimPrefix(string(cur.Sort), "(Array Int "), ")"))
				t := cur
				for _, r := range refs {
					t = Term{"(store " + t.S + " " + r.S + " " + x.fresh("row_"+sanitize(k), row).S + ")", cur.Sort}
				}
				st.heap[k] = t
				continue
			}
		}
		x.heapHavoc(st, k)
	}
	// the body may allocate: the allocation pointer after any number of iterations is at or below now
	if cur, ok := st.names["$alloc"].(Term); ok || true {
		if cur.S == "" {
			cur = intLit(0)
		}
		na := x.fresh("alloc", SInt)
		st.assume("(<= " + na.S + " " + cur.S + ")")
		st.names["$alloc"] = na
	}
	// ghost state the body may advance
	if _, ok := st.names["callCount"]; ok {
		st.names["callCount"] = x.fresh("callCount", SInt)
		st.names["callSeq"] = x.fresh("callSeq", arraySort(SInt, SInt))
	}
}

func (x *Exec) checkInvs(sp *LoopSpec, st *State, kind string, ord int) {
	save := x.saveContractCtx()
	x.contract = true
	defer x.restoreContractCtx(save)
	savePos := x.inlineLitPos
	if p, ok := st.names["$loopPos"].(token.Pos); ok {
		x.inlineLitPos = p // names of invariants denote what is in scope inside the loop
	}
	defer func() { x.inlineLitPos = savePos }()
	for i, inv := range sp.Invs {
		lab := inv.Label
		if lab == "" {
			lab = fmt.Sprintf("inv%d", i+1)
		}
		if inv.Prop == "assume" {
			// an assumption about the state in which the loop is entered (not checked; it persists only
			// through what the loop leaves unmodified)
			if kind == "inv-init" {
				st.assume(x.evalBool(inv.Expr, st))
				x.noteAssume("assumed at the entry of loop " + fmt.Sprint(ord) + " of " + x.unit + ": " + strings.TrimSpace(inv.Src))
			}
			continue
		}
		phi := x.evalBool(inv.Expr, st)
		x.contract = false
		x.oblige(st, kind, fmt.Sprintf("loop%d.%s", ord, lab), phi, inv.Src)
		x.contract = true
	}
}

// checkStep: the loop body's own contract, checked in every state in which one iteration is left
// (fall-through, continue, break or return); old(...) denotes the state at the start of that iteration.
func (x *Exec) checkStep(sp *LoopSpec, start *State, ends []*State, ord int) {
	if len(sp.Step) == 0 {
		return
	}
	save := x.saveContractCtx()
	defer x.restoreContractCtx(save)
	for _, o := range ends {
		if o.out == outPanic {
			continue
		}
		savePos := x.inlineLitPos
		if p, ok := o.names["$loopPos"].(token.Pos); ok {
			x.inlineLitPos = p
		}
		saveOld := o.old
		o.old = start
		for i, cl := range sp.Step {
			lab := cl.Label
			if lab == "" {
				lab = fmt.Sprintf("step%d", i+1)
			}
			// tag `next`: the clause is about iterations that go on to the next one (not break / return)
			prop := ""
			onlyNext := false
			for _, t := range strings.Split(cl.Prop, ",") {
				switch t = strings.TrimSpace(t); t {
				case "next":
					onlyNext = true
				case "", "assume":
				default:
					if prop != "" {
						prop += ","
					}
					prop += t
				}
			}
			if onlyNext && o.out != outNormal && o.out != outContinue {
				continue
			}
			if prop != "" && !propIn(prop, x.prop) {
				continue
			}
			x.contract = true
			phi := x.evalBool(cl.Expr, o)
			x.contract = false
			x.oblige(o, "loop-step", fmt.Sprintf("loop%d.%s", ord, lab), phi, cl.Src)
		}
		o.old = saveOld
		x.inlineLitPos = savePos
	}
}

// checkAfter: the loop's postcondition, checked in every state that leaves the loop normally.
func (x *Exec) checkAfter(sp *LoopSpec, outs []*State, ord int) {
	if len(sp.After) == 0 {
		return
	}
	save := x.saveContractCtx()
	defer x.restoreContractCtx(save)
	for _, o := range outs {
		if o.out != outNormal {
			continue
		}
		savePos := x.inlineLitPos
		if p, ok := o.names["$loopPos"].(token.Pos); ok {
			x.inlineLitPos = p
		}
		for i, cl := range sp.After {
			lab := cl.Label
			if lab == "" {
				lab = fmt.Sprintf("after%d", i+1)
			}
			x.contract = true
			phi := x.evalBool(cl.Expr, o)
			x.contract = false
			ob := x.oblige(o, "loop-post", fmt.Sprintf("loop%d.%s", ord, lab), phi, cl.Src)
			if cl.Prop != "" && cl.Prop != "assume" {
				ob.Prop = cl.Prop
			}
		}
		x.inlineLitPos = savePos
	}
}

func (x *Exec) assumeInvs(sp *LoopSpec, st *State) {
	save := x.saveContractCtx()
	x.contract = true
	defer x.restoreContractCtx(save)
	savePos := x.inlineLitPos
	if p, ok := st.names["$loopPos"].(token.Pos); ok {
		x.inlineLitPos = p
	}
	defer func() { x.inlineLitPos = savePos }()
	for _, inv := range sp.Invs {
		if inv.Prop == "assume" {
			continue
		}
		st.assume(x.evalBool(inv.Expr, st))
	}
}

func (x *Exec) execFor(s *ast.ForStmt, st *State) []*State {
	sp := x.loopSpecOf(s)
	ord := x.loopOrd[s]
	st.names["$loopPos"] = s.Body.Lbrace + 1
	var out []*State
	starts := []*State{st}
	if s.Init != nil {
		starts = x.execStmt(s.Init, st)
	}
	for _, c := range starts {
		if c.out != outNormal {
			out = append(out, c)
			continue
		}
		x.checkInvs(sp, c, "inv-init", ord)
		x.havoc(c, s)
		x.assumeInvs(sp, c)
		heads := []*State{c}
		if s.Cond != nil {
			heads = x.hoistCond(s.Cond, c)
		}
		for _, h := range heads {
			if h.out != outNormal {
				out = append(out, h)
				continue
			}
			cond := "true"
			if s.Cond != nil {
				cond = x.evalBool(s.Cond, h)
			}
			body := h.clone()
			body.assume(cond)
			iterStart := body.clone()
			iterEnds := x.execBlock(s.Body.List, body)
			x.checkStep(sp, iterStart, iterEnds, ord)
			for _, b := range iterEnds {
				switch b.out {
				case outNormal, outContinue:
					if b.label != "" {
						engineFail("labelled continue unsupported")
					}
					b.out = outNormal
					ends := []*State{b}
					if s.Post != nil {
						ends = x.execStmt(s.Post, b)
					}
					for _, e := range ends {
						x.checkInvs(sp, e, "inv-step", ord)
					}
				case outBreak:
					if b.label == "" {
						b.out = outNormal
					}
					out = append(out, b)
				default:
					out = append(out, b)
				}
			}
			if s.Cond != nil {
				h.assume(not(cond))
				out = append(out, h)
			}
		}
	}
	x.checkAfter(sp, out, ord)
	return out
}

func (x *Exec) execRange(s *ast.RangeStmt, st *State) []*State {
	sp := x.loopSpecOf(s)
	ord := x.loopOrd[s]
	var out []*State
	for _, c := range x.hoist(s.X, st) {
		if c.out != outNormal {
			out = append(out, c)
			continue
		}
		outs := x.execRange1(s, sp, ord, c)
		x.checkAfter(sp, outs, ord)
		out = append(out, outs...)
	}
	return out
}

func (x *Exec) execRange1(s *ast.RangeStmt, sp *LoopSpec, ord int, st *State) []*State {
	st.names["$loopPos"] = s.Body.Lbrace + 1
	xv, xt := x.eval(s.X, st)
	base := asTerm(xv)
	idxName := sp.Index
	if idxName == "" {
		idxName = fmt.Sprintf("$i%d", ord)
	}
	bindKV := func(c *State, key, val Value) {
		set := func(e ast.Expr, v Value) {
			if e == nil || v == nil {
				return
			}
			if id, ok := e.(*ast.Ident); ok && id.Name == "_" {
				return
			}
			if s.Tok == token.DEFINE {
				if o := x.info().Defs[e.(*ast.Ident)]; o != nil {
					c.env[o] = v
				}
				return
			}
			x.assignTo(e, v, x.typeOf(e), c)
		}
		set(s.Key, key)
		set(s.Value, val)
	}
	var n Term
	var elem func(c *State, i Term) Value
	isMap := false
	switch u := xt.Underlying().(type) {
	case *types.Slice:
		n = x.slen(base)
		es := x.sortOf(u.Elem())
		elem = func(c *State, i Term) Value {
			return Term{"(select " + x.sliceArr(c, base, es, u.Elem()).S + " " + i.S + ")", es}
		}
	case *types.Array:
		n = intLit(u.Len())
		es := x.sortOf(u.Elem())
		arr := x.sliceArr(st, base, es, u.Elem()) // ranges over a copy
		elem = func(c *State, i Term) Value { return Term{"(select " + arr.S + " " + i.S + ")", es} }
	case *types.Basic:
		if u.Info()&types.IsInteger != 0 {
			n = base
			elem = func(c *State, i Term) Value { return nil }
		} else {
			engineFail("range over string is outside the supported subset")
		}
	case *types.Map:
		isMap = true
	default:
		engineFail("range over %s is outside the supported subset", xt)
	}
	var out []*State
	if isMap {
		u := xt.Underlying().(*types.Map)
		ks, vs := x.sortOf(u.Key()), x.sortOf(u.Elem())
		x.checkInvs(sp, st, "inv-init", ord)
		x.havoc(st, s.Body)
		x.assumeInvs(sp, st)
		body := st.clone()
		k := x.freshOf(body, "mk", u.Key())
		body.assume("(select " + x.mapHas(body, base, ks, vs).S + " " + k.S + ")")
		body.assume("(not (= " + base.S + " 0))")
		bindKV(body, k, Term{"(select " + x.mapVal(body, base, ks, vs).S + " " + k.S + ")", vs})
		mapIterStart := body.clone()
		mapIterEnds := x.execBlock(s.Body.List, body)
		x.checkStep(sp, mapIterStart, mapIterEnds, ord)
		for _, b := range mapIterEnds {
			switch b.out {
			case outNormal, outContinue:
				b.out = outNormal
				x.checkInvs(sp, b, "inv-step", ord)
			case outBreak:
				if b.label == "" {
					b.out = outNormal
				}
				out = append(out, b)
			default:
				out = append(out, b)
			}
		}
		x.noteAssume("range over a map: each iteration sees an arbitrary present key; that every key is visited exactly once is not modelled")
		out = append(out, st)
		return out
	}
	st.names[idxName] = intLit(0)
	x.checkInvs(sp, st, "inv-init", ord)
	x.havoc(st, s.Body)
	i := x.fresh("i", SInt)
	st.assume("(and (<= 0 " + i.S + ") (<= " + i.S + " " + n.S + "))")
	st.names[idxName] = i
	x.assumeInvs(sp, st)
	body := st.clone()
	body.assume("(< " + i.S + " " + n.S + ")")
	bindKV(body, i, elem(body, i))
	iterStart := body.clone()
	iterEnds := x.execBlock(s.Body.List, body)
	x.checkStep(sp, iterStart, iterEnds, ord)
	for _, b := range iterEnds {
		switch b.out {
		case outNormal, outContinue:
			b.out = outNormal
			b.names[idxName] = Term{"(+ " + i.S + " 1)", SInt}
			x.checkInvs(sp, b, "inv-step", ord)
		case outBreak:
			if b.label == "" {
				b.out = outNormal
			}
			out = append(out, b)
		default:
			out = append(out, b)
		}
	}
	st.assume("(= " + i.S + " " + n.S + ")")
	out = append(out, st)
	return out
}

