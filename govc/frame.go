package main

import (
	"fmt"
	"go/ast"
	"go/token"
	"go/types"
	"sort"
	"strings"

	"golang.org/x/tools/go/packages"
)

// FrameLit is a function literal that runs at interpretation time: it takes a *frame.
type FrameLit struct {
	Lit  *ast.FuncLit
	Gen  string // enclosing top-level function
	Decl *ast.FuncDecl
}

func isFramePtr(t types.Type) bool {
	p, ok := t.(*types.Pointer)
	if !ok {
		return false
	}
	n, ok := p.Elem().(*types.Named)
	return ok && n.Obj().Name() == "frame"
}

// runtimeLits lists every function literal of the package with a *frame parameter,
// outermost first, with the declaration that contains it.
func runtimeLits(p *packages.Package) []FrameLit {
	var out []FrameLit
	for _, f := range p.Syntax {
		for _, d := range f.Decls {
			fd, ok := d.(*ast.FuncDecl)
			if !ok || fd.Body == nil {
				continue
			}
			name := fd.Name.Name
			if fd.Recv != nil && len(fd.Recv.List) > 0 {
				name = typeNameShort(p.TypesInfo.TypeOf(fd.Recv.List[0].Type)) + "." + name
			}
			ast.Inspect(fd.Body, func(n ast.Node) bool {
				lit, ok := n.(*ast.FuncLit)
				if !ok {
					return true
				}
				sig, _ := p.TypesInfo.TypeOf(lit).(*types.Signature)
				if sig != nil {
					for i := 0; i < sig.Params().Len(); i++ {
						if isFramePtr(sig.Params().At(i).Type()) {
							out = append(out, FrameLit{Lit: lit, Gen: name, Decl: fd})
							break
						}
					}
				}
				return true
			})
		}
	}
	return out
}

type capturedWrite struct {
	Var  string
	What string
	Pos  token.Pos
}

// rootVar returns the variable at the root of an lvalue/receiver expression and whether the
// path to it goes through an index, field or dereference (a write "into" the variable).
func rootVar(info *types.Info, e ast.Expr) (*types.Var, bool) {
	through := false
	for {
		switch x := e.(type) {
		case *ast.ParenExpr:
			e = x.X
		case *ast.IndexExpr:
			e, through = x.X, true
		case *ast.SelectorExpr:
			if _, ok := info.Selections[x]; !ok {
				v, _ := info.ObjectOf(x.Sel).(*types.Var)
				return v, through
			}
			e, through = x.X, true
		case *ast.StarExpr:
			e, through = x.X, true
		case *ast.SliceExpr:
			e, through = x.X, true
		case *ast.Ident:
			v, _ := info.ObjectOf(x).(*types.Var)
			return v, through
		default:
			return nil, through
		}
	}
}

// capturedWrites finds stores whose root is a variable captured from outside the literal:
// assignments, inc/dec, range assignments, delete, and reflect.Value.Set* on a captured value.
func capturedWrites(p *packages.Package, lit *ast.FuncLit) []capturedWrite {
	info := p.TypesInfo
	captured := func(v *types.Var) bool {
		if v == nil || v.IsField() {
			return false
		}
		return v.Pos() < lit.Pos() || v.Pos() > lit.End()
	}
	var out []capturedWrite
	note := func(e ast.Expr, what string) {
		v, _ := rootVar(info, e)
		if captured(v) {
			kind := "captured"
			if v.Parent() == v.Pkg().Scope() {
				kind = "package-level"
			}
			out = append(out, capturedWrite{Var: v.Name(), What: kind + " " + what + " " + types.ExprString(e), Pos: e.Pos()})
		}
	}
	ast.Inspect(lit.Body, func(n ast.Node) bool {
		switch n := n.(type) {
		case *ast.AssignStmt:
			if n.Tok == token.DEFINE {
				return true
			}
			for _, l := range n.Lhs {
				note(l, "assignment to")
			}
		case *ast.IncDecStmt:
			note(n.X, "inc/dec of")
		case *ast.RangeStmt:
			if n.Tok == token.ASSIGN {
				if n.Key != nil {
					note(n.Key, "range assignment to")
				}
				if n.Value != nil {
					note(n.Value, "range assignment to")
				}
			}
		case *ast.CallExpr:
			if id, ok := n.Fun.(*ast.Ident); ok {
				if b, ok := info.ObjectOf(id).(*types.Builtin); ok && (b.Name() == "delete" || b.Name() == "clear") && len(n.Args) > 0 {
					note(n.Args[0], b.Name()+" on")
				}
				return true
			}
			if se, ok := n.Fun.(*ast.SelectorExpr); ok {
				if sel, ok := info.Selections[se]; ok && sel.Kind() == types.MethodVal {
					if fn, ok := sel.Obj().(*types.Func); ok && fn.Pkg() != nil && fn.Pkg().Path() == "reflect" && strings.HasPrefix(fn.Name(), "Set") {
						// a Set* on a reflect.Value that is itself a captured variable (not a value fetched from the frame)
						if id, ok := unparen(se.X).(*ast.Ident); ok {
							if v, _ := info.ObjectOf(id).(*types.Var); captured(v) {
								out = append(out, capturedWrite{Var: v.Name(), What: "reflect " + fn.Name() + " on captured value " + id.Name, Pos: n.Pos()})
							}
						}
					}
				}
			}
		}
		return true
	})
	return out
}

// frameCondition emits, per generator function, the obligation "no run-time closure stores into
// generation-time (captured) state", and one failing obligation per (generator, variable) written.
func (r *Run) frameCondition(pkgName string) {
	p := r.L.ByName[pkgName]
	lits := runtimeLits(p)
	byGen := map[string][]FrameLit{}
	for _, l := range lits {
		byGen[l.Gen] = append(byGen[l.Gen], l)
	}
	var gens []string
	for g := range byGen {
		gens = append(gens, g)
	}
	sort.Strings(gens)
	total := 0
	for _, g := range gens {
		bad := map[string][]string{}
		for _, l := range byGen[g] {
			total++
			for _, w := range capturedWrites(p, l.Lit) {
				pos := r.L.Fset.Position(w.Pos)
				bad[w.Var] = append(bad[w.Var], fmt.Sprintf("%s (%s:%d)", w.What, shortFile(pos.Filename), pos.Line))
			}
		}
		r.frameObl(fmt.Sprintf("%s.%s/assigns:frame-only", pkgName, g), fmt.Sprintf("the %d run-time closures of %s assign only locals, frame state and fresh objects", len(byGen[g]), g), len(bad) == 0, "")
		if len(bad) > 0 {
			// the aggregate is reported through the per-variable obligations below
			r.Obls = r.Obls[:len(r.Obls)-1]
		}
		var vars []string
		for v := range bad {
			vars = append(vars, v)
		}
		sort.Strings(vars)
		for _, v := range vars {
			r.frameObl(fmt.Sprintf("%s.%s/assigns:captured[%s]", pkgName, g, v), "captured generation-time state is read-only at run time", false, strings.Join(bad[v], "; "))
		}
		r.FuncsUC = append(r.FuncsUC, pkgName+"."+g)
	}
	r.Extra["runtime_closures_checked"] = total
}

func shortFile(f string) string {
	if i := strings.LastIndex(f, "/"); i >= 0 {
		return f[i+1:]
	}
	return f
}

// idWriters: the cancellation ids have a closed set of writers, which is what lets every other
// function be treated as preserving them.
func (r *Run) idWriters() {
	p := r.L.ByName["interp"]
	allowed := map[string]map[string]bool{
		"frame.id":       {"newFrame": true, "frame.clone": true, "frame.setrunid": true},
		"Interpreter.id": {"Interpreter.stop": true},
	}
	bad := map[string][]string{}
	for fn, fd := range r.L.decls {
		if r.L.declPkg[fn] != p || fd.Body == nil {
			continue
		}
		name := fn.Name()
		if sig := fn.Type().(*types.Signature); sig.Recv() != nil {
			name = typeNameShort(sig.Recv().Type()) + "." + name
		}
		note := func(owner, field string, pos token.Pos) {
			k := owner + "." + field
			if allowed[k] != nil && !allowed[k][name] {
				bad[k] = append(bad[k], fmt.Sprintf("%s (%s:%d)", name, shortFile(r.L.Fset.Position(pos).Filename), r.L.Fset.Position(pos).Line))
			}
		}
		fieldOf := func(e ast.Expr) (string, string, bool) {
			se, ok := unparen(e).(*ast.SelectorExpr)
			if !ok {
				return "", "", false
			}
			sel, ok := p.TypesInfo.Selections[se]
			if !ok || sel.Kind() != types.FieldVal {
				return "", "", false
			}
			return typeNameShort(sel.Recv()), se.Sel.Name, true
		}
		ast.Inspect(fd.Body, func(n ast.Node) bool {
			switch n := n.(type) {
			case *ast.AssignStmt:
				for _, l := range n.Lhs {
					if o, f, ok := fieldOf(l); ok {
						note(o, f, l.Pos())
					}
				}
			case *ast.IncDecStmt:
				if o, f, ok := fieldOf(n.X); ok {
					note(o, f, n.Pos())
				}
			case *ast.UnaryExpr:
				if n.Op == token.AND {
					if o, f, ok := fieldOf(n.X); ok && f == "id" {
						// address taken: only inside atomic.Load* is a read
						note(o, f+"(&)", n.Pos())
					}
				}
			case *ast.CompositeLit:
				if t := p.TypesInfo.TypeOf(n); t != nil {
					if nt, ok := t.(*types.Named); ok {
						for _, el := range n.Elts {
							if kv, ok := el.(*ast.KeyValueExpr); ok {
								if id, ok := kv.Key.(*ast.Ident); ok && id.Name == "id" {
									note(nt.Obj().Name(), "id", kv.Pos())
								}
							}
						}
					}
				}
			case *ast.CallExpr:
				// atomic.LoadUint64(&x.id) is a read: skip its argument
				if fnc := calleeNameOf(p, n); strings.HasPrefix(fnc, "atomic.Load") {
					return false
				}
				if fnc := calleeNameOf(p, n); strings.HasPrefix(fnc, "atomic.Store") || strings.HasPrefix(fnc, "atomic.Add") {
					if u, ok := unparen(n.Args[0]).(*ast.UnaryExpr); ok {
						if o, f, ok := fieldOf(u.X); ok {
							note(o, f, n.Pos())
						}
					}
					return false
				}
			}
			return true
		})
	}
	for _, k := range []string{"frame.id", "Interpreter.id"} {
		var al []string
		for a := range allowed[k] {
			al = append(al, a)
		}
		sort.Strings(al)
		r.frameObl("interp/writers["+k+"]", k+" is written only by "+strings.Join(al, ", "), len(bad[k]) == 0, strings.Join(bad[k], "; "))
	}
	// setrunid is applied only by Execute, and only to the root frame
	var callers []string
	for fn, fd := range r.L.decls {
		if r.L.declPkg[fn] != p || fd.Body == nil {
			continue
		}
		ast.Inspect(fd.Body, func(n ast.Node) bool {
			if c, ok := n.(*ast.CallExpr); ok && calleeNameOf(p, c) == "interp.frame.setrunid" {
				callers = append(callers, fn.Name()+":"+types.ExprString(c))
			}
			return true
		})
	}
	sort.Strings(callers)
	okc := len(callers) == 1 && callers[0] == "Execute:interp.frame.setrunid(interp.runid())"
	r.frameObl("interp/callers[frame.setrunid]", "setrunid is applied exactly once, by Execute, to the root frame with the current run id", okc, strings.Join(callers, "; "))
}

func calleeNameOf(p *packages.Package, c *ast.CallExpr) string {
	switch f := unparen(c.Fun).(type) {
	case *ast.Ident:
		if fn, ok := p.TypesInfo.ObjectOf(f).(*types.Func); ok {
			return calleeName(fn)
		}
	case *ast.SelectorExpr:
		if sel, ok := p.TypesInfo.Selections[f]; ok {
			if fn, ok := sel.Obj().(*types.Func); ok {
				return calleeName(fn)
			}
			return ""
		}
		if fn, ok := p.TypesInfo.ObjectOf(f.Sel).(*types.Func); ok {
			return calleeName(fn)
		}
	}
	return ""
}

// blockingOps: a run-time closure that blocks on a channel must race the frame's done channel.
// Plain reflect.Value.Recv / Send closures are chosen when the generator runs (n.interp.cancelChan
// is read at generation time), so a function compiled by a plain Eval blocks uninterruptibly.
func (r *Run) blockingOps() {
	p := r.L.ByName["interp"]
	for _, gen := range []string{"recv", "recv2", "send", "rangeChan", "_select"} {
		fd := r.L.FindFunc(p, gen)
		if fd == nil {
			r.engineError("generator %s does not exist in the current tree", gen)
			continue
		}
		var bad []string
		for _, l := range runtimeLits(p) {
			if l.Decl != fd {
				continue
			}
			ast.Inspect(l.Lit.Body, func(n ast.Node) bool {
				c, ok := n.(*ast.CallExpr)
				if !ok {
					return true
				}
				se, ok := c.Fun.(*ast.SelectorExpr)
				if !ok {
					return true
				}
				if sel, ok := p.TypesInfo.Selections[se]; ok && sel.Kind() == types.MethodVal {
					fn := sel.Obj().(*types.Func)
					if fn.Pkg() != nil && fn.Pkg().Path() == "reflect" && (fn.Name() == "Recv" || fn.Name() == "Send") {
						pos := r.L.Fset.Position(c.Pos())
						bad = append(bad, fmt.Sprintf("%s (%s:%d)", types.ExprString(c.Fun), shortFile(pos.Filename), pos.Line))
					}
				}
				return true
			})
		}
		r.frameObl("interp."+gen+"/blocking:races-done", "no run-time closure of "+gen+" blocks with a plain Recv/Send (every blocking operation is a reflect.Select that includes f.done)", len(bad) == 0, strings.Join(bad, "; "))
	}
}

// debuggerFrame: the debugger hooks called from runCfg write only debugger state — never frame
// data, the defer stack, the pending panic or the run ids.
func (r *Run) debuggerFrame() {
	p := r.L.ByName["interp"]
	forbidden := map[string]bool{"frame.data": true, "frame.deferred": true, "frame.recovered": true, "frame.id": true, "frame.anc": true, "frame.root": true, "frame.done": true, "Interpreter.id": true, "node.exec": true, "node.tnext": true, "node.fnext": true}
	for _, fnName := range []string{"Debugger.exec", "Debugger.enterCall", "Debugger.exitCall", "Debugger.enterGoRoutine", "Debugger.exitGoRoutine", "Debugger.getGoRoutine"} {
		fd := r.L.FindFunc(p, fnName)
		if fd == nil {
			if fnName == "Debugger.getGoRoutine" {
				continue
			}
			r.engineError("%s does not exist in the current tree", fnName)
			continue
		}
		var bad []string
		check := func(e ast.Expr) {
			se, ok := unparen(e).(*ast.SelectorExpr)
			for !ok {
				if ix, isIx := unparen(e).(*ast.IndexExpr); isIx {
					e = ix.X
					se, ok = unparen(e).(*ast.SelectorExpr)
					continue
				}
				return
			}
			if sel, ok := p.TypesInfo.Selections[se]; ok && sel.Kind() == types.FieldVal {
				k := typeNameShort(sel.Recv()) + "." + se.Sel.Name
				if forbidden[k] {
					pos := r.L.Fset.Position(se.Pos())
					bad = append(bad, fmt.Sprintf("%s (%s:%d)", k, shortFile(pos.Filename), pos.Line))
				}
			}
		}
		ast.Inspect(fd.Body, func(n ast.Node) bool {
			switch n := n.(type) {
			case *ast.AssignStmt:
				for _, l := range n.Lhs {
					check(l)
				}
			case *ast.IncDecStmt:
				check(n.X)
			}
			return true
		})
		r.frameObl("interp."+fnName+"/assigns:debugger-state-only", fnName+" assigns no interpreter frame state (data, deferred, recovered, ids, links) and no node wiring", len(bad) == 0, strings.Join(bad, "; "))
		r.FuncsUC = append(r.FuncsUC, "interp."+fnName)
	}
}

// sessionLifecycle (C19): the goroutine started by Interpreter.Debug registers the terminate event as a
// deferred call before any statement that can fail or emit another event, so that the event is emitted
// on every exit (a panic of the program included) and after every other event of the session; and the
// program is executed only after a resume request was received for the main routine.
func (r *Run) sessionLifecycle() {
	p := r.L.ByName["interp"]
	fd := r.L.FindFunc(p, "Interpreter.Debug")
	if fd == nil {
		r.engineError("Interpreter.Debug does not exist in the current tree")
		return
	}
	var lit *ast.FuncLit
	ast.Inspect(fd.Body, func(n ast.Node) bool {
		if g, ok := n.(*ast.GoStmt); ok && lit == nil {
			lit, _ = g.Call.Fun.(*ast.FuncLit)
		}
		return true
	})
	isTerminate := func(c *ast.CallExpr) bool {
		if !strings.HasSuffix(types.ExprString(c.Fun), "events") {
			return false
		}
		found := false
		for _, a := range c.Args {
			ast.Inspect(a, func(n ast.Node) bool {
				if kv, ok := n.(*ast.KeyValueExpr); ok {
					if k, ok := kv.Key.(*ast.Ident); ok && k.Name == "reason" {
						if v, ok := kv.Value.(*ast.Ident); ok && v.Name == "DebugTerminate" {
							found = true
						}
					}
				}
				return true
			})
		}
		return found
	}
	deferred, before, witness := 0, true, ""
	recvAt, execAt := -1, -1
	if lit == nil {
		witness = "no goroutine literal in Interpreter.Debug"
	} else {
		seenOther := false
		for i, st := range lit.Body.List {
			if d, ok := st.(*ast.DeferStmt); ok {
				if isTerminate(d.Call) {
					deferred++
					if seenOther {
						before = false
						witness = "the terminate event is deferred after " + r.L.Fset.Position(lit.Body.List[i-1].Pos()).String()
					}
				}
				continue
			}
			seenOther = true
			txt := ""
			ast.Inspect(st, func(n ast.Node) bool {
				switch n := n.(type) {
				case *ast.UnaryExpr:
					if n.Op == token.ARROW && strings.HasSuffix(types.ExprString(n.X), ".resume") && recvAt < 0 {
						recvAt = i
					}
				case *ast.CallExpr:
					if se, ok := n.Fun.(*ast.SelectorExpr); ok && (se.Sel.Name == "ExecuteWithContext" || se.Sel.Name == "Execute") && execAt < 0 {
						execAt = i
					}
				}
				return true
			})
			_ = txt
		}
		if deferred != 1 && witness == "" {
			witness = fmt.Sprintf("%d deferred terminate events in the session goroutine", deferred)
		}
	}
	r.frameObl("interp.Interpreter.Debug/defer:terminate-event-on-every-exit", "the session goroutine defers exactly one terminate event, before any statement that is not a defer", lit != nil && deferred == 1 && before, witness)
	w2 := ""
	if !(recvAt >= 0 && execAt > recvAt) {
		w2 = fmt.Sprintf("receive from the main routine's resume channel at statement %d, program execution at statement %d of the session goroutine", recvAt, execAt)
	}
	r.frameObl("interp.Interpreter.Debug/order:resume-before-execution", "the program is executed only after a resume request for the main routine was received", recvAt >= 0 && execAt > recvAt, w2)
	r.FuncsUC = append(r.FuncsUC, "interp.Interpreter.Debug")
}

// contextWatchers (C09): the three *WithContext entry points call stop exactly once on the
// cancellation branch of their select and return the context's error from it.
func (r *Run) contextWatchers() {
	p := r.L.ByName["interp"]
	for _, key := range []string{"Interpreter.EvalWithContext", "Interpreter.EvalPathWithContext", "Interpreter.ExecuteWithContext"} {
		fd := r.L.FindFunc(p, key)
		if fd == nil {
			r.engineError("%s does not exist in the current tree", key)
			continue
		}
		ok, got := false, "no select on ctx.Done()"
		ast.Inspect(fd.Body, func(n ast.Node) bool {
			sel, isSel := n.(*ast.SelectStmt)
			if !isSel {
				return true
			}
			for _, cl := range sel.Body.List {
				cc := cl.(*ast.CommClause)
				es, isExpr := cc.Comm.(*ast.ExprStmt)
				if !isExpr || types.ExprString(es.X) != "<-ctx.Done()" {
					continue
				}
				var parts []string
				for _, s := range cc.Body {
					switch s := s.(type) {
					case *ast.ExprStmt:
						parts = append(parts, types.ExprString(s.X))
					case *ast.ReturnStmt:
						var rs []string
						for _, x := range s.Results {
							rs = append(rs, types.ExprString(x))
						}
						parts = append(parts, "return "+strings.Join(rs, ", "))
					default:
						parts = append(parts, "?")
					}
				}
				got = strings.Join(parts, "; ")
				ok = len(parts) == 2 && parts[0] == "interp.stop()" && strings.HasPrefix(parts[1], "return ") && strings.HasSuffix(parts[1], ", ctx.Err()")
			}
			return true
		})
		r.frameObl("interp."+key+"/cancel:stop-then-ctx-err", "on cancellation "+key+" calls stop() once and returns the context's error", ok, got)
		r.FuncsUC = append(r.FuncsUC, "interp."+key+" (cancellation branch)")
	}
}
