package main

import (
	"fmt"
	"go/ast"
	"go/printer"
	"go/types"
	"sort"
	"strings"
)

// staticCallees lists the functions of the target packages that fd calls statically (nested
// function literals included): the edges of the call graph used by effect obligations. Calls
// through function values and interfaces are not resolved (stated in the evidence).
func (r *Run) staticCallees(fn *types.Func) []*types.Func {
	fd, p := r.L.funcDeclPkg(fn)
	if fd == nil || fd.Body == nil {
		return nil
	}
	seen := map[*types.Func]bool{}
	var out []*types.Func
	ast.Inspect(fd.Body, func(n ast.Node) bool {
		c, ok := n.(*ast.CallExpr)
		if !ok {
			return true
		}
		var callee *types.Func
		switch f := unparen(c.Fun).(type) {
		case *ast.Ident:
			callee, _ = p.TypesInfo.ObjectOf(f).(*types.Func)
		case *ast.SelectorExpr:
			if sel, ok := p.TypesInfo.Selections[f]; ok {
				if sel.Kind() == types.MethodVal {
					callee, _ = sel.Obj().(*types.Func)
				}
			} else {
				callee, _ = p.TypesInfo.ObjectOf(f.Sel).(*types.Func)
			}
		}
		if callee != nil && callee.Pkg() != nil && r.L.target[callee.Pkg().Path()] && !seen[callee.Origin()] {
			seen[callee.Origin()] = true
			out = append(out, callee.Origin())
		}
		return true
	})
	return out
}

func (r *Run) funcByKey(pkgName, key string) *types.Func {
	p := r.L.ByName[pkgName]
	for fn := range r.L.decls {
		if r.L.declPkg[fn] != p {
			continue
		}
		k := fn.Name()
		if sig := fn.Type().(*types.Signature); sig.Recv() != nil {
			k = typeNameShort(sig.Recv().Type()) + "." + k
		}
		if k == key {
			return fn
		}
	}
	return nil
}

// reach computes the functions reachable from root without passing through any function of cut.
func (r *Run) reach(root *types.Func, cut map[*types.Func]bool) map[*types.Func][]*types.Func {
	pred := map[*types.Func][]*types.Func{root: nil}
	queue := []*types.Func{root}
	for len(queue) > 0 {
		f := queue[0]
		queue = queue[1:]
		if cut[f] && f != root {
			continue
		}
		for _, c := range r.staticCallees(f) {
			if _, ok := pred[c]; !ok {
				pred[c] = append(append([]*types.Func{}, pred[f]...), f)
				queue = append(queue, c)
			}
		}
	}
	return pred
}

func fnKey(f *types.Func) string {
	k := f.Name()
	if sig := f.Type().(*types.Signature); sig.Recv() != nil {
		k = typeNameShort(sig.Recv().Type()) + "." + k
	}
	return k
}

// compilePhaseEffects: no function of the compile phase reaches execution (Interpreter.run, runCfg,
// Interpreter.Execute) in the static call graph — except through importSrc, reported on its own.
func (r *Run) compilePhaseEffects() {
	var execs []*types.Func
	for _, k := range []string{"Interpreter.run", "runCfg", "Interpreter.Execute"} {
		f := r.funcByKey("interp", k)
		if f == nil {
			r.engineError("%s does not exist in the current tree", k)
			return
		}
		execs = append(execs, f)
	}
	imp := r.funcByKey("interp", "Interpreter.importSrc")
	if imp == nil {
		r.engineError("Interpreter.importSrc does not exist in the current tree")
		return
	}
	roots := []string{"Interpreter.parse", "Interpreter.ast", "Interpreter.gta", "Interpreter.gtaRetry", "Interpreter.cfg", "Interpreter.CompileAST", "Interpreter.compileSrc", "genRun", "genGlobalVars"}
	for _, rk := range roots {
		root := r.funcByKey("interp", rk)
		if root == nil {
			r.engineError("%s does not exist in the current tree", rk)
			continue
		}
		pred := r.reach(root, map[*types.Func]bool{imp: true})
		var bad []string
		for _, e := range execs {
			if path, ok := pred[e]; ok && e != root {
				var ks []string
				for _, f := range path {
					ks = append(ks, fnKey(f))
				}
				bad = append(bad, strings.Join(append(ks, fnKey(e)), " -> "))
			}
		}
		sort.Strings(bad)
		r.frameObl("interp."+rk+"/effects:no-execution", rk+" reaches neither Interpreter.run, runCfg nor Execute in the static call graph (edges through importSrc cut)", len(bad) == 0, strings.Join(bad, "; "))
		// through importSrc
		full := r.reach(root, nil)
		via := ""
		if _, ok := full[imp]; ok {
			ip := r.reach(imp, nil)
			for _, e := range execs {
				if path, ok := ip[e]; ok {
					var ks []string
					for _, f := range path {
						ks = append(ks, fnKey(f))
					}
					via = rk + " -> ... -> " + strings.Join(append(ks, fnKey(e)), " -> ")
					break
				}
			}
		}
		if _, reachesImp := full[imp]; reachesImp {
			r.frameObl("interp."+rk+"/effects:no-execution[via importSrc]", rk+" does not execute code of imported source packages before the importer is fully compiled", via == "", via)
		}
		r.FuncsUC = append(r.FuncsUC, "interp."+rk+" (effects)")
	}
	// applications of exec closures (calls through a value of type bltn) occur only at run time
	p := r.L.ByName["interp"]
	var apps []string
	for fn, fd := range r.L.decls {
		if r.L.declPkg[fn] != p || fd.Body == nil {
			continue
		}
		var visit func(n ast.Node, inRuntimeLit bool)
		visit = func(n ast.Node, inRuntimeLit bool) {
			ast.Inspect(n, func(m ast.Node) bool {
				switch m := m.(type) {
				case *ast.FuncLit:
					if m == n {
						return true
					}
					rt := false
					if sig, ok := p.TypesInfo.TypeOf(m).(*types.Signature); ok {
						for i := 0; i < sig.Params().Len(); i++ {
							if isFramePtr(sig.Params().At(i).Type()) {
								rt = true
							}
						}
					}
					visit(m, inRuntimeLit || rt)
					return false
				case *ast.CallExpr:
					if nt, ok := p.TypesInfo.TypeOf(m.Fun).(*types.Named); ok && nt.Obj().Name() == "bltn" && !inRuntimeLit && fnKey(fn) != "runCfg" {
						pos := r.L.Fset.Position(m.Pos())
						apps = append(apps, fnKey(fn)+" ("+shortFile(pos.Filename)+")")
					}
				}
				return true
			})
		}
		visit(fd.Body, false)
	}
	sort.Strings(apps)
	r.frameObl("interp/effects:bltn-applied-only-at-run-time", "values of type bltn are applied only by runCfg and by run-time closures", len(apps) == 0, strings.Join(apps, "; "))
}

// phaseOrder: in Execute and importSrc the calls root -> global variables -> init functions appear
// in that order (ground obligation on the statement order of the real bodies).
func (r *Run) phaseOrder() {
	p := r.L.ByName["interp"]
	for _, key := range []string{"Interpreter.Execute", "Interpreter.importSrc"} {
		fd := r.L.FindFunc(p, key)
		if fd == nil {
			r.engineError("%s does not exist in the current tree", key)
			continue
		}
		// positions of: first run of a root, genGlobalVars, run of its result, loop over init nodes
		pos := map[string]int{}
		idx := 0
		ast.Inspect(fd.Body, func(n ast.Node) bool {
			idx++
			switch n := n.(type) {
			case *ast.CallExpr:
				name := calleeNameOf(p, n)
				switch {
				case name == "interp.genGlobalVars":
					if _, ok := pos["vars-gen"]; !ok {
						pos["vars-gen"] = idx
					}
				case name == "interp.Interpreter.run":
					arg := types.ExprString(n.Args[0])
					frame := types.ExprString(n.Args[1])
					switch {
					case frame == "interp.frame":
						if _, ok := pos["inits-run"]; !ok {
							pos["inits-run"] = idx
						}
					case pos["vars-gen"] > 0:
						if _, ok := pos["vars-run"]; !ok {
							pos["vars-run"] = idx
						}
					default:
						_ = arg
						if _, ok := pos["root-run"]; !ok {
							pos["root-run"] = idx
						}
					}
				}
			}
			return true
		})
		ok := pos["root-run"] > 0 && pos["root-run"] < pos["vars-gen"] && pos["vars-gen"] < pos["vars-run"] && pos["vars-run"] < pos["inits-run"]
		r.frameObl("interp."+key+"/order:root-vars-inits", "package code, then global variables (in dependency order), then init functions/main run in that order", ok, fmt.Sprint(pos))
		r.FuncsUC = append(r.FuncsUC, "interp."+key+" (phase order)")
	}
}

// mainLast (C15): main is put on the list of functions to run once, outside every loop, after every
// statement that puts init functions on it — so that it runs after ALL init functions of ALL files.
func (r *Run) mainLast() {
	p := r.L.ByName["interp"]
	for _, key := range []string{"Interpreter.importSrc", "Interpreter.CompileAST"} {
		fd := r.L.FindFunc(p, key)
		if fd == nil {
			r.engineError("%s does not exist in the current tree", key)
			continue
		}
		type app struct {
			idx, depth int
			main      bool
			pos       string
		}
		var apps []app
		idx := 0
		var walk func(n ast.Node, depth int, inMainIf bool)
		walk = func(n ast.Node, depth int, inMainIf bool) {
			ast.Inspect(n, func(m ast.Node) bool {
				if m == nil || m == n {
					return true
				}
				idx++
				switch m := m.(type) {
				case *ast.FuncLit:
					return false
				case *ast.ForStmt:
					walk(m.Body, depth+1, inMainIf)
					return false
				case *ast.RangeStmt:
					walk(m.Body, depth+1, inMainIf)
					return false
				case *ast.IfStmt:
					mentions := false
					ast.Inspect(m, func(k ast.Node) bool {
						if k == m.Body || k == m.Else {
							return false
						}
						if id, ok := k.(*ast.Ident); ok && id.Name == "mainID" {
							mentions = true
						}
						return true
					})
					if m.Init != nil {
						walk(m.Init, depth, inMainIf)
					}
					walk(m.Body, depth, inMainIf || mentions)
					if m.Else != nil {
						walk(m.Else, depth, inMainIf)
					}
					return false
				case *ast.AssignStmt:
					if len(m.Lhs) == 1 && len(m.Rhs) == 1 && types.ExprString(m.Lhs[0]) == "initNodes" {
						if c, ok := m.Rhs[0].(*ast.CallExpr); ok && types.ExprString(c.Fun) == "append" {
							apps = append(apps, app{idx, depth, inMainIf, r.L.Fset.Position(m.Pos()).String()})
						}
					}
				}
				return true
			})
		}
		walk(fd.Body, 0, false)
		nMain, ok, why := 0, true, ""
		for _, a := range apps {
			if a.main {
				nMain++
				if a.depth > 0 {
					ok, why = false, "main is appended inside a loop at "+a.pos
				}
				for _, b := range apps {
					if !b.main && b.idx > a.idx {
						ok, why = false, "init functions are appended at "+b.pos+" after main was"
					}
				}
			}
		}
		if nMain != 1 && ok {
			ok, why = false, fmt.Sprintf("%d statements append main to the run list", nMain)
		}
		r.frameObl("interp."+key+"/order:main-after-all-inits", "main is appended to the list of functions to run exactly once, outside every loop, after every append of init functions", ok, why)
		r.FuncsUC = append(r.FuncsUC, "interp."+key+" (main last)")
	}
}

// depsThroughFunctions: the Go spec's reference relation is transitive through the bodies of the
// functions and methods an initialiser mentions. The obligation holds when the dependency walk
// treats function symbols (it must visit the body of a referenced function).
func (r *Run) depsThroughFunctions() {
	p := r.L.ByName["interp"]
	fd := r.L.FindFunc(p, "getVarDependencies")
	if fd == nil {
		r.engineError("getVarDependencies does not exist in the current tree")
		return
	}
	handles := false
	ast.Inspect(fd.Body, func(n ast.Node) bool {
		if id, ok := n.(*ast.Ident); ok && (id.Name == "funcSym" || id.Name == "funcDecl") {
			handles = true
		}
		return true
	})
	r.frameObl("interp.getVarDependencies/deps:through-function-bodies", "references to package-level variables made inside the bodies of functions the initialiser mentions are dependencies (Go spec, package initialization)", handles, "the walk returns at every identifier that is not a variable symbol: function symbols are never followed")
}

// frameLayoutResync (C11): after an imported source package has been compiled, the importer's frame
// layout is re-synchronised with the global one on every successful path — the assignment
// `sc.types = interp.universe.types` is the first statement of the success branch of importSrc.
func (r *Run) frameLayoutResync() {
	p := r.L.ByName["interp"]
	fd := r.L.FindFunc(p, "Interpreter.gta")
	if fd == nil {
		r.engineError("Interpreter.gta does not exist in the current tree")
		return
	}
	found, ok := false, false
	got := ""
	ast.Inspect(fd.Body, func(n ast.Node) bool {
		ifs, isIf := n.(*ast.IfStmt)
		if !isIf || ifs.Init == nil {
			return true
		}
		as, isAs := ifs.Init.(*ast.AssignStmt)
		if !isAs || len(as.Rhs) != 1 {
			return true
		}
		c, isCall := as.Rhs[0].(*ast.CallExpr)
		if !isCall || calleeNameOf(p, c) != "interp.Interpreter.importSrc" {
			return true
		}
		found = true
		if types.ExprString(ifs.Cond) == "err == nil" && len(ifs.Body.List) > 0 {
			if a, isA := ifs.Body.List[0].(*ast.AssignStmt); isA && len(a.Lhs) == 1 {
				got = types.ExprString(a.Lhs[0]) + " = " + types.ExprString(a.Rhs[0])
				ok = got == "sc.types = interp.universe.types"
			}
		}
		return true
	})
	if !found {
		r.engineError("gta: the importSrc call site was not found")
		return
	}
	r.frameObl("interp.Interpreter.gta/import:frame-layout-resynchronised", "on every path where importSrc succeeded (named, dot and blank imports alike) the importer's frame layout is re-synchronised before it allocates further global slots", ok, "first statement of the success branch: "+got)
	r.FuncsUC = append(r.FuncsUC, "interp.Interpreter.gta (import of a source package)")
}

// opTables: the operator admissibility tables of typecheck.go, entry by entry, against the Go
// specification's operand requirements (Arithmetic operators: + on numbers and strings; - * / on numbers;
// % & | ^ &^ on integers; && || ! on booleans; unary + - on numbers, ^ on integers).
func (r *Run) opTables() {
	p := r.L.ByName["interp"]
	if p == nil {
		return
	}
	norm := func(s string) string { return strings.Join(strings.Fields(s), " ") }
	numOrStr := "func(typ reflect.Type) bool { return isNumber(typ) || isString(typ) }"
	want := map[string]map[string]string{
		"binaryOpPredicates": {"aAdd": numOrStr, "aSub": "isNumber", "aMul": "isNumber", "aQuo": "isNumber", "aRem": "isInt",
			"aAnd": "isInt", "aOr": "isInt", "aXor": "isInt", "aAndNot": "isInt", "aLand": "isBoolean", "aLor": "isBoolean"},
		"unaryOpPredicates": {"aInc": "isNumber", "aDec": "isNumber", "aPos": "isNumber", "aNeg": "isNumber", "aBitNot": "isInt", "aNot": "isBoolean"},
	}
	for _, f := range p.Syntax {
		for _, d := range f.Decls {
			gd, ok := d.(*ast.GenDecl)
			if !ok {
				continue
			}
			for _, sp := range gd.Specs {
				vs, ok := sp.(*ast.ValueSpec)
				if !ok || len(vs.Names) != 1 || len(vs.Values) != 1 {
					continue
				}
				exp := want[vs.Names[0].Name]
				cl, ok := vs.Values[0].(*ast.CompositeLit)
				if exp == nil || !ok {
					continue
				}
				tab := vs.Names[0].Name
				seen := map[string]bool{}
				for _, el := range cl.Elts {
					kv, ok := el.(*ast.KeyValueExpr)
					if !ok {
						continue
					}
					k := types.ExprString(kv.Key)
					var buf strings.Builder
					printer.Fprint(&buf, r.L.Fset, kv.Value)
					got := norm(buf.String())
					seen[k] = true
					w, known := exp[k]
					if !known {
						r.ground("interp."+tab+"/only-spec-operators["+k+"]", "the table admits only the operators of the Go specification", false, tab+" has an entry for "+k+": "+got)
						continue
					}
					r.ground("interp."+tab+"/admits["+k+"]", "operator "+k+" is defined exactly on: "+w, got == norm(w), tab+"["+k+"] is "+got)
				}
				var missing []string
				for k := range exp {
					if !seen[k] {
						missing = append(missing, k)
					}
				}
				sort.Strings(missing)
				r.ground("interp."+tab+"/complete", "every operator of the Go specification has an entry", len(missing) == 0, "missing: "+strings.Join(missing, ", "))
				r.FuncsUC = append(r.FuncsUC, "interp."+tab+" (table)")
			}
		}
	}
}

// dispatchTables (C02, C03): the three places that decide WHICH operator code runs are tables, and a
// table is decided entry by entry: (1) the parser switch of ast.go maps each Go operator token to the
// action of that operator, per syntactic context; (2) the generator table `builtin` of run.go maps each
// operator action to the generator of the same name; (3) `constOp` of cfg.go maps each operator action to
// the constant folder of the same name, and `constCmp` maps each comparison action to the token handed to
// constant.Compare (the contract of compareConst speaks of constCmp[n.action], so the cells are decided here).  A wrong cell (SUB_ASSIGN -> aAddAssign, aShr: shl) type-checks.
func (r *Run) dispatchTables() {
	p := r.L.ByName["interp"]
	if p == nil {
		return
	}
	lower := func(s string) string { return strings.ToLower(s[:1]) + s[1:] }
	// (2) and (3)
	ops := []string{"Add", "And", "AndNot", "Mul", "Or", "Quo", "Rem", "Shl", "Shr", "Sub", "Xor"}
	wantGen := map[string]string{}
	for _, o := range ops {
		wantGen["a"+o] = lower(o)
		wantGen["a"+o+"Assign"] = lower(o) + "Assign"
	}
	for _, o := range []string{"BitNot", "Dec", "Inc", "Equal", "NotEqual", "Greater", "GreaterEqual", "Lower", "LowerEqual", "Land", "Lor", "Neg", "Not", "Pos"} {
		wantGen["a"+o] = lower(o)
	}
	wantConst := map[string]string{}
	for _, o := range append(append([]string{}, ops...), "Not", "BitNot", "Neg", "Pos") {
		wantConst["a"+o] = lower(o) + "Const"
	}
	tables := map[string]map[string]string{"builtin": wantGen, "constOp": wantConst,
		"constBltn": {"bltnComplex": "complexConst", "bltnImag": "imagConst", "bltnReal": "realConst"},
		"constCmp": {"aEqual": "token.EQL", "aNotEqual": "token.NEQ", "aLower": "token.LSS", "aLowerEqual": "token.LEQ", "aGreater": "token.GTR", "aGreaterEqual": "token.GEQ"}}
	found := map[string]bool{}
	for _, f := range p.Syntax {
		for _, d := range f.Decls {
			gd, ok := d.(*ast.GenDecl)
			if !ok {
				continue
			}
			for _, sp := range gd.Specs {
				vs, ok := sp.(*ast.ValueSpec)
				if !ok || len(vs.Names) != 1 || len(vs.Values) != 1 {
					continue
				}
				tab := vs.Names[0].Name
				exp := tables[tab]
				cl, ok := vs.Values[0].(*ast.CompositeLit)
				if exp == nil || !ok {
					continue
				}
				found[tab] = true
				seen := map[string]bool{}
				for _, el := range cl.Elts {
					kv, ok := el.(*ast.KeyValueExpr)
					if !ok {
						continue
					}
					k, v := types.ExprString(kv.Key), types.ExprString(kv.Value)
					if w, known := exp[k]; known {
						seen[k] = true
						r.ground("interp."+tab+"/dispatch["+k+"]", "entry "+k+" of "+tab+" is "+w, v == w, tab+"["+k+"] is "+v)
					} else if tab != "builtin" {
						r.ground("interp."+tab+"/only-operators["+k+"]", tab+" has entries for operators only", false, tab+" has an entry for "+k+": "+v)
					}
				}
				var missing []string
				for k := range exp {
					if !seen[k] {
						missing = append(missing, k)
					}
				}
				sort.Strings(missing)
				r.ground("interp."+tab+"/dispatch-complete", "every operator has an entry in "+tab, len(missing) == 0, "missing: "+strings.Join(missing, ", "))
				r.FuncsUC = append(r.FuncsUC, "interp."+tab+" (table)")
			}
		}
	}
	for tab := range tables {
		if !found[tab] {
			r.ground("interp."+tab+"/dispatch-complete", "the table "+tab+" exists as a composite literal", false, "not found in the current tree")
		}
	}
	// (1) token -> action, per syntactic context of Interpreter.ast
	bin := map[string]string{"ADD": "aAdd", "SUB": "aSub", "MUL": "aMul", "QUO": "aQuo", "REM": "aRem", "AND": "aAnd", "OR": "aOr", "XOR": "aXor",
		"SHL": "aShl", "SHR": "aShr", "AND_NOT": "aAndNot", "LAND": "aLand", "LOR": "aLor", "EQL": "aEqual", "NEQ": "aNotEqual", "LSS": "aLower",
		"LEQ": "aLowerEqual", "GTR": "aGreater", "GEQ": "aGreaterEqual"}
	asg := map[string]string{"ASSIGN": "aAssign", "DEFINE": "aAssign"}
	for _, t := range []string{"ADD", "SUB", "MUL", "QUO", "REM", "AND", "OR", "XOR", "SHL", "SHR", "AND_NOT"} {
		asg[t+"_ASSIGN"] = bin[t] + "Assign"
	}
	want := map[string]map[string]string{
		"BinaryExpr": bin,
		"AssignStmt": asg,
		"IncDecStmt": {"INC": "aInc", "DEC": "aDec"},
		"UnaryExpr":  {"ADD": "aPos", "SUB": "aNeg", "NOT": "aNot", "XOR": "aBitNot", "AND": "aAddr", "ARROW": "aRecv"},
	}
	fd := r.L.FindFunc(p, "Interpreter.ast")
	if fd == nil {
		r.engineError("Interpreter.ast does not exist in the current tree")
		return
	}
	seenTok := map[string]map[string]bool{}
	ast.Inspect(fd.Body, func(n ast.Node) bool {
		ts, ok := n.(*ast.TypeSwitchStmt)
		if !ok {
			return true
		}
		for _, cl := range ts.Body.List {
			cc := cl.(*ast.CaseClause)
			if len(cc.List) != 1 {
				continue
			}
			ctx := strings.TrimPrefix(types.ExprString(cc.List[0]), "*ast.")
			exp := want[ctx]
			if exp == nil {
				continue
			}
			seenTok[ctx] = map[string]bool{}
			for _, st := range cc.Body {
				ast.Inspect(st, func(m ast.Node) bool {
					sw, ok := m.(*ast.SwitchStmt)
					if !ok || sw.Tag == nil || !(strings.HasSuffix(types.ExprString(sw.Tag), ".Op") || strings.HasSuffix(types.ExprString(sw.Tag), ".Tok")) {
						return true
					}
					for _, c2 := range sw.Body.List {
						c := c2.(*ast.CaseClause)
						for _, te := range c.List {
							tok := strings.TrimPrefix(types.ExprString(te), "token.")
							got := ""
							for _, bs := range c.Body {
								if as, ok := bs.(*ast.AssignStmt); ok && len(as.Lhs) == 1 && types.ExprString(as.Lhs[0]) == "act" {
									got = types.ExprString(as.Rhs[0])
								}
							}
							w, known := exp[tok]
							if !known {
								r.ground("interp.Interpreter.ast/token["+ctx+":"+tok+"]", "only the operator tokens of this context are mapped", false, "token."+tok+" is mapped to "+got)
								continue
							}
							seenTok[ctx][tok] = true
							r.ground("interp.Interpreter.ast/token["+ctx+":"+tok+"]", "token."+tok+" in an "+ctx+" becomes action "+w, got == w, "token."+tok+" becomes "+got)
						}
					}
					return false
				})
			}
		}
		return false
	})
	for ctx, exp := range want {
		var missing []string
		for tok := range exp {
			if !seenTok[ctx][tok] {
				missing = append(missing, tok)
			}
		}
		sort.Strings(missing)
		r.ground("interp.Interpreter.ast/tokens-complete["+ctx+"]", "every operator token of an "+ctx+" is mapped", len(missing) == 0, "missing: "+strings.Join(missing, ", "))
	}
	r.FuncsUC = append(r.FuncsUC, "interp.Interpreter.ast (operator token switches)")
}
