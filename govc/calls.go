package main

import (
	"regexp"
	"fmt"
	"go/ast"
	"go/parser"
	"go/token"
	"sort"
	"go/types"
	"strings"
)

// libModel implements a trusted model of an external (library) function.
type libModel func(x *Exec, st *State, e *ast.CallExpr, args []Value, argTypes []types.Type) (Value, bool)

var libModels = map[string]libModel{}

func tstr(v Value) string { return asTerm(v).S }

func init() {
	libModels["strings.HasPrefix"] = func(x *Exec, st *State, e *ast.CallExpr, a []Value, _ []types.Type) (Value, bool) {
		return Term{"(str.prefixof " + tstr(a[1]) + " " + tstr(a[0]) + ")", SBool}, true
	}
	libModels["strings.HasSuffix"] = func(x *Exec, st *State, e *ast.CallExpr, a []Value, _ []types.Type) (Value, bool) {
		return Term{"(str.suffixof " + tstr(a[1]) + " " + tstr(a[0]) + ")", SBool}, true
	}
	libModels["strings.Contains"] = func(x *Exec, st *State, e *ast.CallExpr, a []Value, _ []types.Type) (Value, bool) {
		return Term{"(str.contains " + tstr(a[0]) + " " + tstr(a[1]) + ")", SBool}, true
	}
	libModels["strings.Index"] = func(x *Exec, st *State, e *ast.CallExpr, a []Value, _ []types.Type) (Value, bool) {
		return Term{"(str.indexof " + tstr(a[0]) + " " + tstr(a[1]) + " 0)", SInt}, true
	}
	libModels["strings.TrimSuffix"] = func(x *Exec, st *State, e *ast.CallExpr, a []Value, _ []types.Type) (Value, bool) {
		s, suf := tstr(a[0]), tstr(a[1])
		return Term{"(ite (str.suffixof " + suf + " " + s + ") (str.substr " + s + " 0 (- (str.len " + s + ") (str.len " + suf + "))) " + s + ")", SStr}, true
	}
	libModels["strings.TrimPrefix"] = func(x *Exec, st *State, e *ast.CallExpr, a []Value, _ []types.Type) (Value, bool) {
		s, p := tstr(a[0]), tstr(a[1])
		return Term{"(ite (str.prefixof " + p + " " + s + ") (str.substr " + s + " (str.len " + p + ") (- (str.len " + s + ") (str.len " + p + "))) " + s + ")", SStr}, true
	}
	// path and file-system functions: uninterpreted, with the relations their implementations guarantee
	libModels["filepath.Split"] = func(x *Exec, st *State, e *ast.CallExpr, a []Value, _ []types.Type) (Value, bool) {
		p := asTerm(a[0])
		dir := x.uf("lib_filepath.SplitDir", SStr, p)
		file := x.uf("lib_filepath.SplitFile", SStr, p)
		if !x.underBinder(p.S) {
			// filepath.Dir(p) is Clean of the directory part Split returns (same scan in both, unix paths)
			x.noteAssume("filepath.Dir(p) == filepath.Clean(dir) where dir, _ = filepath.Split(p) (their unix implementations)")
			d := x.uf("lib_filepath.Dir", SStr, p)
			st.assume(eq(d, x.uf("lib_filepath.Clean", SStr, dir)))
		}
		return TupleV{dir, file}, true
	}
	libModels["filepath.Join"] = func(x *Exec, st *State, e *ast.CallExpr, a []Value, _ []types.Type) (Value, bool) {
		if len(a) < 2 || e.Ellipsis.IsValid() {
			return nil, false
		}
		// Join(a, b, c) == Join(Join(a, b), c): left-nested binary joins
		t := asTerm(a[0])
		for _, b := range a[1:] {
			t = x.uf("pathJoin2", SStr, t, asTerm(b))
		}
		return t, true
	}
	libModels["fs.Stat"] = func(x *Exec, st *State, e *ast.CallExpr, a []Value, _ []types.Type) (Value, bool) {
		// the file system is a fixed function of (fs, path) during the call: isDirAt(fs, path)
		fi := x.fresh("fi", SInt)
		err := x.fresh("staterr", SInt)
		x.noteAssume("fs.Stat: the file system does not change during the unit; err == nil && fi.IsDir() iff isDirAt(fs, path)")
		st.assume("(= (and (= " + err.S + " 0) (fiIsDir " + fi.S + ")) (isDirAt " + tstr(a[0]) + " " + tstr(a[1]) + "))")
		st.assume("(= (= " + err.S + " 0) (existsAt " + tstr(a[0]) + " " + tstr(a[1]) + "))")
		return TupleV{fi, err}, true
	}
	libModels["fs.FileInfo.IsDir"] = func(x *Exec, st *State, e *ast.CallExpr, a []Value, _ []types.Type) (Value, bool) {
		return Term{"(fiIsDir " + tstr(a[0]) + ")", SBool}, true
	}
	// os.Expand(s, mapping): uninterpreted in the string and the mapping function (what matters is WHICH
	// mapping is used); os.ExpandEnv / os.Getenv / os.LookupEnv / os.Environ read the host environment
	libModels["os.Expand"] = func(x *Exec, st *State, e *ast.CallExpr, a []Value, _ []types.Type) (Value, bool) {
		fn := a[1]
		var ft Term
		if t, ok := fn.(Term); ok {
			ft = t
		} else if fv, ok := fn.(*FuncV); ok && fv.Lit != nil {
			ft = Term{fmt.Sprintf("(closureAt %d)", x.L.Fset.Position(fv.Lit.Pos()).Line), SInt}
		} else {
			return nil, false
		}
		return x.uf("osExpandOp", SStr, asTerm(a[0]), ft), true
	}
	libModels["os.ExpandEnv"] = func(x *Exec, st *State, e *ast.CallExpr, a []Value, _ []types.Type) (Value, bool) {
		return x.uf("osExpandOp", SStr, asTerm(a[0]), Term{"hostGetenv", SInt}), true
	}
	libModels["errors.Is"] = func(x *Exec, st *State, e *ast.CallExpr, a []Value, _ []types.Type) (Value, bool) {
		return x.uf("lib_errors.Is", SBool, asTerm(a[0]), asTerm(a[1])), true
	}
	// pure library functions kept uninterpreted (their meaning is shared with the spec side)
	for _, n := range []string{"strings.TrimSpace", "path.Base", "filepath.Base", "path/filepath.Base", "strings.ToLower", "filepath.Dir", "path/filepath.Dir", "filepath.Clean", "path/filepath.Clean", "path.Clean", "path.Dir", "types.Package.Path", "types.Package.Name", "types.Interface.NumMethods", "types.Interface.NumEmbeddeds", "types.Interface.NumExplicitMethods"} {
		n := n
		libModels[n] = func(x *Exec, st *State, e *ast.CallExpr, a []Value, _ []types.Type) (Value, bool) {
			var ts []Term
			for _, v := range a {
				ts = append(ts, asTerm(v))
			}
			so := SStr
			if strings.HasPrefix(n, "types.Interface.Num") {
				so = SInt
			}
			return x.uf("lib_"+n, so, ts...), true
		}
	}
	// strings.Split / Fields: a pure function returning an immutable slice of strings
	for _, n := range []string{"strings.Split", "strings.Fields"} {
		n := n
		libModels[n] = func(x *Exec, st *State, e *ast.CallExpr, a []Value, _ []types.Type) (Value, bool) {
			var ts []Term
			var as []string
			for _, v := range a {
				ts = append(ts, asTerm(v))
				as = append(as, asTerm(v).S)
			}
			h := x.uf("lib_"+n, SInt, ts...)
			x.uf("lib_"+n+"_elems", arraySort(SInt, SStr), ts...)
			fn := sanitize("lib_" + n)
			se := x.heapGet(st, x.seKey(SStr), arraySort(SInt, arraySort(SInt, SStr)))
			// the result is an immutable slice: its handle is positive and its elements are a
			// function of the arguments (stated over the heap version current at the call).
			// Documented facts about Split with a non-empty separator: >= 1 element; [s] when s does
			// not contain sep; no element contains sep.
			binder := x.underBinder(strings.Join(as, " "))
			vars, app, elems, sArg, pArg := "((s String) (p String))", "("+fn+" s p)", "("+fn+"_elems s p)", "s", "p"
			if len(ts) == 1 {
				vars, app, elems = "((s String))", "("+fn+" s)", "("+fn+"_elems s)"
			}
			if !binder {
				app, elems = h.S, "("+fn+"_elems "+strings.Join(as, " ")+")"
				sArg = as[0]
				if len(as) > 1 {
					pArg = as[1]
				}
			}
			q := func(body, pat string) string {
				if binder {
					return "(assert (forall " + vars + " (! " + body + " :pattern (" + pat + "))))"
				}
				return "(assert " + body + ")"
			}
			key := fn + ":" + strings.Join(as, " ")
			if binder {
				key = fn + ":forall"
			}
			x.slen(h)
			x.declare(q("(> "+app+" 0)", app), "ax_pos_"+key)
			x.declare(q("(= (select "+se.S+" "+app+") "+elems+")", app), "ax_elems_"+key+"_"+se.S)
			if n == "strings.Split" {
				x.declare(q("(=> (> (str.len "+pArg+") 0) (>= (slen "+app+") 1))", app), "ax_split_len_"+key)
				x.declare(q("(=> (and (> (str.len "+pArg+") 0) (not (str.contains "+sArg+" "+pArg+"))) (and (= (slen "+app+") 1) (= (select "+elems+" 0) "+sArg+")))", app), "ax_split_single_"+key)
				if binder {
					x.declare(splitNoSepAxiom, "ax_split_nosep")
				} else {
					// join(split(s, sep), sep) == s, instantiated for results of up to 4 elements
					e := func(i int) string { return fmt.Sprintf("(select %s %d)", elems, i) }
					j := e(0)
					for k := 1; k <= 4; k++ {
						x.declare(fmt.Sprintf("(assert (=> (and (> (str.len %s) 0) (= (slen %s) %d)) (= %s %s)))", pArg, app, k, sArg, j), fmt.Sprintf("ax_split_join%d_%s", k, key))
						j = "(str.++ " + j + " " + pArg + " " + e(k) + ")"
					}
				}
				x.noteAssume("trusted: strings.Split(s, sep) is a pure function; with non-empty sep it returns >= 1 elements, none containing sep, and [s] when s does not contain sep")
			} else {
				x.noteAssume("trusted: strings.Fields is a pure function of its argument")
			}
			return h, true
		}
	}
	// reflect.Value.Call: applies the function value; it may panic. Each application is appended to
	// the ghost trace (callCount, callSeq) when the unit asks for it.
	libModels["reflect.Value.Call"] = func(x *Exec, st *State, e *ast.CallExpr, a []Value, _ []types.Type) (Value, bool) {
		if cc, ok := st.names["callCount"]; ok {
			n := asTerm(cc)
			seq := asTerm(st.names["callSeq"])
			st.names["callSeq"] = Term{"(store " + seq.S + " " + n.S + " " + asTerm(a[0]).S + ")", seq.Sort}
			st.names["callCount"] = Term{"(+ " + n.S + " 1)", SInt}
		}
		x.lockedCall(types.ExprString(e.Fun), st)
		st.names["$pendingPanic"] = "reflect.Value.Call"
		x.noteAssume("trusted: reflect.Value.Call applies its receiver once and may panic")
		return x.newRef(st, "callres"), true
	}
	// reflect.Select: blocks until one case can proceed; returns its index. The case vector and the
	// chosen index are exposed to contracts as the ghost names selCases / selChosen / selCalled.
	libModels["reflect.Select"] = func(x *Exec, st *State, e *ast.CallExpr, a []Value, at []types.Type) (Value, bool) {
		h := asTerm(a[0])
		ch := x.fresh("chosen", SInt)
		st.assume("(and (<= 0 " + ch.S + ") (< " + ch.S + " " + x.slen(h).S + "))")
		st.names["selCases"] = h
		st.names["$type:selCases"] = at[0]
		st.names["selChosen"] = ch
		st.names["selCalled"] = boolLit(true)
		st.names["$selState"] = st.clone()
		x.noteAssume("trusted: reflect.Select returns the index of one of the given cases (0 <= chosen < len(cases))")
		return TupleV{ch, x.fresh("selv", SInt), x.fresh("selok", SBool)}, true
	}
	for _, n := range []string{"log.Panic", "log.Panicf", "log.Panicln", "log.Logger.Panic", "log.Logger.Panicf", "log.Logger.Panicln"} {
		n := n
		libModels[n] = func(x *Exec, st *State, e *ast.CallExpr, a []Value, _ []types.Type) (Value, bool) {
			x.noteAssume("trusted (T5): " + n + " panics after printing, it does not exit the process")
			st.out = outPanic
			st.note = n
			return intLit(0), true
		}
	}
	// go/constant (T4): ToInt keeps the integer value; Int64Val/Uint64Val are exact inside the range
	libModels["constant.BinaryOp"] = func(x *Exec, st *State, e *ast.CallExpr, a []Value, _ []types.Type) (Value, bool) {
		return Term{"(constBinaryOp " + asTerm(a[0]).S + " " + asTerm(a[1]).S + " " + asTerm(a[2]).S + ")", SInt}, true
	}
	libModels["constant.UnaryOp"] = func(x *Exec, st *State, e *ast.CallExpr, a []Value, _ []types.Type) (Value, bool) {
		return Term{"(constUnaryOp " + asTerm(a[0]).S + " " + asTerm(a[1]).S + " " + asTerm(a[2]).S + ")", SInt}, true
	}
	libModels["constant.Compare"] = func(x *Exec, st *State, e *ast.CallExpr, a []Value, _ []types.Type) (Value, bool) {
		r := x.uf("constCompare", SBool, asTerm(a[0]), asTerm(a[1]), asTerm(a[2]))
		if !x.underBinder(r.S) {
			// T4, for the operands of this application: Compare on two Int constants compares their values under
			// the token; on two Bool or two String constants, == and != compare their values
			c0, tok, c1 := asTerm(a[0]).S, asTerm(a[1]).S, asTerm(a[2]).S
			st.assume("(=> (and (= (constKind " + c0 + ") 3) (= (constKind " + c1 + ") 3)) (= " + r.S + " (tokCmpInt " + tok + " (constInt " + c0 + ") (constInt " + c1 + "))))")
			st.assume("(=> (and (= (constKind " + c0 + ") 1) (= (constKind " + c1 + ") 1) (or (= " + tok + " 39) (= " + tok + " 44))) (= " + r.S + " (= (= (constBoolVal " + c0 + ") (constBoolVal " + c1 + ")) (= " + tok + " 39))))")
			st.assume("(=> (and (= (constKind " + c0 + ") 2) (= (constKind " + c1 + ") 2) (or (= " + tok + " 39) (= " + tok + " 44))) (= " + r.S + " (= (= (constStringVal " + c0 + ") (constStringVal " + c1 + ")) (= " + tok + " 39))))")
		}
		return r, true
	}
	libModels["constant.Shift"] = func(x *Exec, st *State, e *ast.CallExpr, a []Value, _ []types.Type) (Value, bool) {
		return Term{"(constShift " + asTerm(a[0]).S + " " + asTerm(a[1]).S + " " + asTerm(a[2]).S + ")", SInt}, true
	}
	libModels["constant.Value.Kind"] = func(x *Exec, st *State, e *ast.CallExpr, a []Value, _ []types.Type) (Value, bool) {
		return Term{"(constKind " + asTerm(a[0]).S + ")", SInt}, true
	}
	libModels["constant.BitLen"] = func(x *Exec, st *State, e *ast.CallExpr, a []Value, _ []types.Type) (Value, bool) {
		// BitLen(x) <= k  <=>  |x| < 2^k  (documented: number of bits to represent |x|)
		c := asTerm(a[0])
		b := x.fresh("bitlen", SInt)
		ci := "(absZ (constInt " + c.S + "))"
		st.assume("(>= " + b.S + " 0)")
		for _, k := range []int{7, 8, 15, 16, 31, 32, 63, 64} {
			st.assume(fmt.Sprintf("(= (<= %s %d) (< %s %s))", b.S, k, ci, pow2(k)))
		}
		x.noteAssume("trusted (T4): constant.BitLen(x) <= k iff |x| < 2^k, instantiated for k in {7,8,15,16,31,32,63,64}")
		return b, true
	}
	libModels["constant.ToInt"] = func(x *Exec, st *State, e *ast.CallExpr, a []Value, _ []types.Type) (Value, bool) {
		// the integer value when c is representable as an integer, otherwise a value of kind Unknown
		c := asTerm(a[0])
		r := Term{"(constToInt " + c.S + ")", SInt}
		return r, true
	}
	// float / complex / bool / string views of a constant: go/constant's own roundings, uninterpreted
	// (constF32 rounds the exact value ONCE to float32; it is not roundKind(float32, constF64(c)))
	for n, uf := range map[string]string{"constant.Float32Val": "constF32", "constant.Float64Val": "constF64"} {
		uf := uf
		libModels[n] = func(x *Exec, st *State, e *ast.CallExpr, a []Value, _ []types.Type) (Value, bool) {
			c := asTerm(a[0])
			return TupleV{Term{"(" + uf + " " + c.S + ")", SInt}, x.uf(uf+"Exact", SBool, c)}, true
		}
	}
	for n, uf := range map[string]string{"constant.ToFloat": "constToFloat", "constant.Real": "constReal", "constant.Imag": "constImag", "constant.ToComplex": "constToComplex"} {
		uf := uf
		libModels[n] = func(x *Exec, st *State, e *ast.CallExpr, a []Value, _ []types.Type) (Value, bool) {
			return Term{"(" + uf + " " + asTerm(a[0]).S + ")", SInt}, true
		}
	}
	libModels["math.IsInf"] = func(x *Exec, st *State, e *ast.CallExpr, a []Value, _ []types.Type) (Value, bool) {
		// IsInf(f, 0): f is an infinity of either sign (only this form is modelled)
		if len(a) != 2 || asTerm(a[1]).S != "0" {
			return nil, false
		}
		return Term{"(fIsInf " + asTerm(a[0]).S + ")", SBool}, true
	}
	libModels["constant.BoolVal"] = func(x *Exec, st *State, e *ast.CallExpr, a []Value, _ []types.Type) (Value, bool) {
		return Term{"(constBoolVal " + asTerm(a[0]).S + ")", SBool}, true
	}
	libModels["constant.StringVal"] = func(x *Exec, st *State, e *ast.CallExpr, a []Value, _ []types.Type) (Value, bool) {
		return Term{"(constStringVal " + asTerm(a[0]).S + ")", SStr}, true
	}
	libModels["constant.Int64Val"] = func(x *Exec, st *State, e *ast.CallExpr, a []Value, _ []types.Type) (Value, bool) {
		c := asTerm(a[0])
		v := x.fresh("i64val", SInt)
		ci := "(constInt " + c.S + ")"
		exact := "(and (<= (- 9223372036854775808) " + ci + ") (<= " + ci + " 9223372036854775807))"
		st.assume("(=> " + exact + " (= " + v.S + " " + ci + "))")
		return TupleV{v, Term{exact, SBool}}, true
	}
	libModels["constant.Uint64Val"] = func(x *Exec, st *State, e *ast.CallExpr, a []Value, _ []types.Type) (Value, bool) {
		c := asTerm(a[0])
		v := x.fresh("u64val", SInt)
		ci := "(constInt " + c.S + ")"
		exact := "(and (<= 0 " + ci + ") (<= " + ci + " 18446744073709551615))"
		st.assume("(=> " + exact + " (= " + v.S + " " + ci + "))")
		return TupleV{v, Term{exact, SBool}}, true
	}
	libModels["fmt.Sprintf"] = func(x *Exec, st *State, e *ast.CallExpr, a []Value, _ []types.Type) (Value, bool) {
		// a pure function of the format and the arguments (uninterpreted, one symbol per sort profile)
		var ts []Term
		sig := ""
		for _, v := range a {
			t, ok := v.(Term)
			if !ok {
				return nil, false
			}
			ts = append(ts, t)
			sig += string(sanitize(string(t.Sort))[0])
		}
		return x.uf("lib_sprintf_"+sig, SStr, ts...), true
	}
	for _, n := range []string{"constant.Value.ExactString", "constant.Value.String"} {
		n := n
		libModels[n] = func(x *Exec, st *State, e *ast.CallExpr, a []Value, _ []types.Type) (Value, bool) {
			return x.uf("lib_"+n, SStr, asTerm(a[0])), true
		}
	}
	for _, n := range []string{"fmt.Errorf", "errors.New"} {
		libModels[n] = func(x *Exec, st *State, e *ast.CallExpr, a []Value, _ []types.Type) (Value, bool) {
			return x.newRef(st, "err"), true // a new, non-nil error value
		}
	}
	// strings.SplitN(s, sep, 2) with a non-empty literal separator: at most two parts, the second is
	// the unsplit remainder (documented behaviour)
	libModels["strings.SplitN"] = func(x *Exec, st *State, e *ast.CallExpr, a []Value, _ []types.Type) (Value, bool) {
		s, sep, n := asTerm(a[0]), asTerm(a[1]), asTerm(a[2])
		if n.S != "2" || !strings.HasPrefix(sep.S, "\"") || sep.S == "\"\"" || x.underBinder(s.S) {
			return nil, false
		}
		h := x.uf("lib_strings_SplitN2", SInt, s, sep)
		el := x.uf("lib_strings_SplitN2_elems", arraySort(SInt, SStr), s, sep)
		se := x.heapGet(st, x.seKey(SStr), arraySort(SInt, arraySort(SInt, SStr)))
		x.slen(h)
		idx := "(str.indexof " + s.S + " " + sep.S + " 0)"
		key := h.S
		x.declare("(assert (> "+h.S+" 0))", "ax_splitn_pos:"+key)
		x.declare("(assert (= (select "+se.S+" "+h.S+") "+el.S+"))", "ax_splitn_el:"+key+se.S)
		x.declare("(assert (ite (str.contains "+s.S+" "+sep.S+") (and (= (slen "+h.S+") 2) (= (select "+el.S+" 0) (str.substr "+s.S+" 0 "+idx+")) (= (select "+el.S+" 1) (str.substr "+s.S+" (+ "+idx+" (str.len "+sep.S+")) (- (str.len "+s.S+") (+ "+idx+" (str.len "+sep.S+")))))) (and (= (slen "+h.S+") 1) (= (select "+el.S+" 0) "+s.S+"))))", "ax_splitn_def:"+key)
		x.noteAssume("trusted: strings.SplitN(s, sep, 2) yields [s] when s has no sep, else [before first sep, remainder]")
		return h, true
	}
	libModels["strconv.Itoa"] = func(x *Exec, st *State, e *ast.CallExpr, a []Value, _ []types.Type) (Value, bool) {
		return x.uf("lib_strconv_Itoa", SStr, asTerm(a[0])), true
	}
	libModels["strconv.Atoi"] = func(x *Exec, st *State, e *ast.CallExpr, a []Value, _ []types.Type) (Value, bool) {
		s := asTerm(a[0])
		x.noteAssume("trusted: strconv.Atoi modelled by atoiVal/atoiErr of specs/common.smt2 (base 10, optional sign, int64 range)")
		return TupleV{Term{"(atoiVal " + s.S + ")", SInt}, Term{"(atoiErr " + s.S + ")", SInt}}, true
	}
}

const splitNoSepAxiom = "(assert (forall ((s String) (p String) (i Int)) (! (=> (and (> (str.len p) 0) (<= 0 i) (< i (slen (lib_strings_Split s p)))) (not (str.contains (select (lib_strings_Split_elems s p) i) p))) :pattern ((select (lib_strings_Split_elems s p) i)))))"

// splitElemFact instantiates "no element of strings.Split(s, sep) contains sep" at one index.
func (x *Exec) splitElemFact(base, idx Term) {
	if !strings.HasPrefix(base.S, "(lib_strings_Split ") {
		return
	}
	if x.underBinder(base.S) || x.underBinder(idx.S) {
		x.declare(splitNoSepAxiom, "ax_split_nosep")
		return
	}
	args := strings.TrimSuffix(strings.TrimPrefix(base.S, "(lib_strings_Split "), ")")
	toks := sexprTokens(args)
	_, j := readSexpr(toks, 0)
	p, _ := readSexpr(toks, j)
	p = strings.ReplaceAll(strings.ReplaceAll(p, "( ", "("), " )", ")")
	elems := "(lib_strings_Split_elems " + args + ")"
	x.declare("(assert (=> (and (> (str.len "+p+") 0) (<= 0 "+idx.S+") (< "+idx.S+" (slen "+base.S+"))) (not (str.contains (select "+elems+" "+idx.S+") "+p+"))))", "ax_split_nosep:"+base.S+":"+idx.S)
}

func calleeName(o types.Object) string {
	if o == nil || o.Pkg() == nil {
		return ""
	}
	if f, ok := o.(*types.Func); ok {
		if sig, ok := f.Type().(*types.Signature); ok && sig.Recv() != nil {
			return o.Pkg().Name() + "." + typeNameShort(sig.Recv().Type()) + "." + o.Name()
		}
	}
	return o.Pkg().Name() + "." + o.Name()
}

func typeNameShort(t types.Type) string {
	if p, ok := t.(*types.Pointer); ok {
		t = p.Elem()
	}
	if n, ok := t.(*types.Named); ok {
		return n.Obj().Name()
	}
	return t.String()
}

func (x *Exec) evalArgs(args []ast.Expr, st *State) ([]Value, []types.Type) {
	var vs []Value
	var ts []types.Type
	for _, a := range args {
		v, t := x.eval(a, st)
		vs = append(vs, v)
		ts = append(ts, t)
	}
	return vs, ts
}

// sigByName: the signature of the function or method of the package under verification with this name.
func (x *Exec) sigByName(name string) *types.Signature {
	var best *types.Func
	for fn, p := range x.L.declPkg {
		if p == x.pkg && fn.Name() == name && (best == nil || fn.Pos() < best.Pos()) {
			best = fn
		}
	}
	if best == nil {
		return nil
	}
	return best.Type().(*types.Signature)
}

var callRecordRx = regexp.MustCompile(`\b(called|lastArg|lastRes|lastRecv)\(`)

// recordedCallee: the simple name of the statically known callee when `opt record-calls` lists it.
func (x *Exec) recordedCallee(e *ast.CallExpr) string {
	if x.con == nil || x.con.Opts["record-calls"] == "" || x.contract {
		return ""
	}
	nm := ""
	switch fe := unparen(e.Fun).(type) {
	case *ast.SelectorExpr:
		nm = fe.Sel.Name
	case *ast.Ident:
		nm = fe.Name
	}
	for _, w := range strings.Split(x.con.Opts["record-calls"], ",") {
		if strings.TrimSpace(w) == nm && nm != "" {
			return nm
		}
	}
	return ""
}

// evalCall evaluates a call; for callees named by `opt record-calls` the arguments and results of the
// latest call are kept as ghost state (called(f), lastArg(f, k), lastRes(f, k) in contracts).
func (x *Exec) evalCall(e *ast.CallExpr, st *State) (Value, types.Type) {
	v, t := x.evalCall0(e, st)
	if nm := x.recordedCallee(e); nm != "" {
		st.names["$lastres:"+nm] = v
		if t != nil {
			st.names["$lastrestype:"+nm] = t
		}
		if x.depth == 0 && x.litDepth == 0 {
			for _, w := range strings.Split(x.con.Opts["return-after"], ",") {
				if strings.TrimSpace(w) == nm {
					st.names["$cut"] = boolLit(true)
				}
			}
		}
	}
	return v, t
}

func (x *Exec) evalCall0(e *ast.CallExpr, st *State) (Value, types.Type) {
	if v, ok := st.calls[e]; ok {
		return v, x.typeOf(e)
	}
	if x.contract {
		return x.evalSpecCall(e, st)
	}
	// conversion?
	if tv, ok := x.info().Types[e.Fun]; ok && tv.IsType() {
		return x.evalConversion(e, tv.Type, st)
	}
	// builtin?
	if id, ok := unparen(e.Fun).(*ast.Ident); ok {
		if b, ok := x.info().ObjectOf(id).(*types.Builtin); ok {
			return x.evalBuiltin(b.Name(), e, st)
		}
	}
	fv, _ := x.eval(e.Fun, st)
	f, ok := fv.(*FuncV)
	if !ok {
		if x.con != nil && x.con.Opts["bltn-gate"] != "" {
			if nt, ok := x.typeOf(e.Fun).(*types.Named); ok && nt.Obj().Name() == "bltn" {
				ge, err := parser.ParseExpr(x.con.Opts["bltn-gate"])
				if err != nil {
					engineFail("bltn-gate: %v", err)
				}
				save := x.saveContractCtx()
				x.contract = true
				phi := x.evalBool(ge, st)
				x.restoreContractCtx(save)
				x.oblige(st, "pre", "gate@"+types.ExprString(e), phi, x.con.Opts["bltn-gate"])
			}
		}
		// call through an opaque function value (field, map entry...)
		if x.con != nil && x.con.Opts["apply-guard"] != "" && !x.contract {
			// `opt apply-guard = cond`: every application of a function VALUE in the unit satisfies cond,
			// arg(k) being the k-th argument of the application
			ge, err := parser.ParseExpr(rewriteImplies(x.con.Opts["apply-guard"]))
			if err != nil {
				engineFail("apply-guard: %v", err)
			}
			gargs, gats := x.evalArgs(e.Args, st)
			save := x.saveContractCtx()
			x.contract = true
			st.names["$guardargs"] = TupleV(append([]Value{}, gargs...))
			st.names["$guardargtypes"] = append([]types.Type{}, gats...)
			phi := x.evalBool(ge, st)
			delete(st.names, "$guardargs")
			delete(st.names, "$guardargtypes")
			x.restoreContractCtx(save)
			x.oblige(st, "pre", "apply-guard", phi, x.con.Opts["apply-guard"]+"  (at "+types.ExprString(e)+")")
		}
		if x.con != nil && x.con.Opts["trace-calls"] != "" {
			// ghost trace of the applications of the named function values: tracedCount, tracedArg(k) = first argument
			nm := ""
			switch fe := unparen(e.Fun).(type) {
			case *ast.SelectorExpr:
				nm = fe.Sel.Name
			case *ast.Ident:
				nm = fe.Name
			}
			for _, w := range strings.Split(x.con.Opts["trace-calls"], ",") {
				if strings.TrimSpace(w) == nm && nm != "" {
					args, _ := x.evalArgs(e.Args, st)
					cnt := asTerm(st.names["tracedCount"])
					seq := asTerm(st.names["tracedSeq"])
					var a0 Term = intLit(0)
					if len(args) > 0 {
						a0 = asTerm(args[0])
					}
					st.names["tracedSeq"] = Term{"(store " + seq.S + " " + cnt.S + " " + a0.S + ")", seq.Sort}
					st.names["tracedCount"] = Term{"(+ " + cnt.S + " 1)", SInt}
					x.noteAssume("traced call of the function value " + nm + ": recorded in the ghost trace; its effect on the modelled heap is not followed")
					return x.opaqueResult(e, st), x.typeOf(e)
				}
			}
		}
		if x.con != nil && x.con.Opts["fn-values"] == "pure" {
			if rt := x.typeOf(e); rt != nil {
				if _, isTuple := rt.(*types.Tuple); !isTuple && x.sortOf(rt) == SBool {
					// predicates held in tables (opPredicates): pure functions of the value and the argument
					args, _ := x.evalArgs(e.Args, st)
					ts := []Term{asTerm(fv)}
					for _, a := range args {
						ts = append(ts, asTerm(a))
					}
					x.noteAssume("predicate values applied in this unit are pure functions of the predicate and its argument")
					return x.uf(fmt.Sprintf("applypred%d", len(ts)), SBool, ts...), rt
				}
				if _, isTuple := rt.(*types.Tuple); !isTuple && x.sortOf(rt) == SInt {
					// value functions (genValue results) are lookups: the same function applied to the same
					// frame yields the same handle
					args, _ := x.evalArgs(e.Args, st)
					ts := []Term{asTerm(fv)}
					for _, a := range args {
						ts = append(ts, asTerm(a))
					}
					x.noteAssume("function values applied in this unit are pure lookups returning pre-state locations (apply is a function of the value and its arguments)")
					app := x.uf(fmt.Sprintf("applyfn%d", len(ts)), SInt, ts...)
					if !x.underBinder(app.S) {
						x.declare("(assert (>= "+app.S+" 0))", "ax_app:"+app.S)
					}
					return app, rt
				}
			}
		}
		x.noteAssume("call through an opaque function value " + types.ExprString(e.Fun) + ": result unconstrained, heap unchanged")
		x.evalArgs(e.Args, st)
		return x.opaqueResult(e, st), x.typeOf(e)
	}
	args, ats := x.evalArgs(e.Args, st)
	if f.Recv != nil {
		args = append([]Value{f.Recv}, args...)
		ats = append([]types.Type{nil}, ats...)
	}
	if f.Model != nil {
		return f.Model.Apply(x, st, args), x.typeOf(e)
	}
	if f.Lit != nil {
		x.noteAssume("call of a local function literal " + types.ExprString(e.Fun) + ": result unconstrained, heap unchanged")
		return x.opaqueResult(e, st), x.typeOf(e)
	}
	name := calleeName(f.Decl)
	explicit, explicitT := args, append([]types.Type{}, ats...)
	if f.Recv != nil {
		explicit, explicitT = args[1:], explicitT[1:]
	}
	for i := range explicitT {
		if explicitT[i] == nil && i < len(e.Args) {
			explicitT[i] = x.typeOf(e.Args[i])
		}
	}
	if nm := x.recordedCallee(e); nm != "" {
		if f.Recv != nil {
			st.names["$lastrecv:"+nm] = args[0]
		}
		st.names["$lastargs:"+nm] = TupleV(append([]Value{}, explicit...))
		st.names["$lastargtypes:"+nm] = append([]types.Type{}, explicitT...)
	}
	if x.con != nil {
		if g := x.con.Opts["call-guard:"+f.Decl.Name()]; g != "" && !x.contract {
			ge, err := parser.ParseExpr(rewriteImplies(g))
			if err != nil {
				engineFail("call-guard: %v", err)
			}
			save := x.saveContractCtx()
			x.contract = true
			// arg(k) in the guard: the k-th explicit argument of this call
			st.names["$guardargs"] = TupleV(append([]Value{}, explicit...))
			st.names["$guardargtypes"] = append([]types.Type{}, explicitT...)
			phi := x.evalBool(ge, st)
			delete(st.names, "$guardargs")
			delete(st.names, "$guardargtypes")
			x.restoreContractCtx(save)
			x.oblige(st, "pre", "guard@"+f.Decl.Name(), phi, g)
		}
	}
	// sync primitives and atomics: sequential semantics (A3)
	if v, ok := x.syncModel(name, f, args, e, st); ok {
		return v, x.typeOf(e)
	}
	if m, ok := x.libModel(name); ok {
		if v, ok := m(x, st, e, args, ats); ok {
			if t, isT := v.(Term); isT {
				x.rangeAssume(st, t, x.typeOf(e)) // the static result type bounds the value
			}
			return v, x.typeOf(e)
		}
	}
	if x.con != nil {
		for _, n := range strings.Split(x.con.Opts["ignore-contracts"], ",") {
			if strings.TrimSpace(n) == f.Decl.Name() {
				x.noteAssume("contract of " + name + " not used in this unit: result unconstrained, heap unchanged")
				return x.opaqueResult(e, st), x.typeOf(e)
			}
		}
	}
	if c := x.lookupContract(f.Decl); c != nil {
		return x.applyContract(c, f.Decl, e, args, st), x.typeOf(e)
	}
	if x.isOpaqueCallee(f.Decl) {
		// declared opaque by the unit's contract: everything may change except the preserved
		// heap fields (whose writers are enumerated by a separate frame obligation)
		if x.con.Opts["opaque-havoc"] == "none" {
			x.noteAssume("opaque call " + name + ": result unconstrained, heap unchanged (generation-time helpers)")
			return x.opaqueResult(e, st), x.typeOf(e)
		}
		keep := map[string]bool{}
		for _, k := range strings.Split(x.con.Opts["preserve"], ",") {
			keep[strings.TrimSpace(k)] = true
		}
		var keys []string
		for k := range st.heap {
			keys = append(keys, k)
		}
		for _, d := range x.decls {
			if strings.HasPrefix(d, "(declare-const ") && strings.Contains(d, "_0 ") {
				k := strings.TrimPrefix(strings.Fields(d)[1], "")
				k = strings.TrimSuffix(k, "_0")
				keys = append(keys, k)
			}
		}
		sort.Strings(keys)
		for _, k := range keys {
			if !keep[k] {
				x.heapHavoc(st, k)
			}
		}
		x.noteAssume("opaque call " + name + ": result unconstrained; heap havocked except " + x.con.Opts["preserve"])
		return x.opaqueResult(e, st), x.typeOf(e)
	}
	if f.Decl.Pkg() != nil && x.L.target[f.Decl.Pkg().Path()] {
		engineFail("call of %s was not hoisted for inlining (nested in an unsupported position): %s", name, types.ExprString(e))
	}
	// unknown external function: pure uninterpreted if results only depend on arguments is NOT assumed: havoc
	x.noteAssume("external call " + name + ": result unconstrained, heap unchanged")
	return x.opaqueResult(e, st), x.typeOf(e)
}

func (x *Exec) opaqueResult(e *ast.CallExpr, st *State) Value {
	t := x.typeOf(e)
	if tup, ok := t.(*types.Tuple); ok {
		var vs TupleV
		for i := 0; i < tup.Len(); i++ {
			vs = append(vs, x.freshOf(st, "ext", tup.At(i).Type()))
		}
		return vs
	}
	if t == nil {
		return intLit(0)
	}
	return x.freshOf(st, "ext", t)
}

func (x *Exec) freshOf(st *State, prefix string, t types.Type) Term {
	v := x.fresh(prefix, x.sortOf(t))
	x.rangeAssume(st, v, t)
	return v
}

func unparen(e ast.Expr) ast.Expr {
	for {
		p, ok := e.(*ast.ParenExpr)
		if !ok {
			return e
		}
		e = p.X
	}
}

func (x *Exec) syncModel(name string, f *FuncV, args []Value, e *ast.CallExpr, st *State) (Value, bool) {
	switch name {
	case "sync.RWMutex.RLock", "sync.RWMutex.RUnlock", "sync.RWMutex.Lock", "sync.RWMutex.Unlock", "sync.Mutex.Lock", "sync.Mutex.Unlock":
		if x.con != nil && x.con.Opts["locks"] == "track" && !x.contract {
			x.trackLock(name, e, st)
		}
		x.noteAssume("A3: mutex operations are no-ops (sequential semantics)")
		return intLit(0), true
	case "atomic.LoadUint64", "atomic.LoadInt64", "atomic.StoreUint64", "atomic.AddUint64", "atomic.AddInt64", "atomic.LoadInt32", "atomic.StoreInt32":
		// argument is &x.f : evaluate the operand location directly
		u, ok := unparen(e.Args[0]).(*ast.UnaryExpr)
		if !ok {
			return nil, false
		}
		x.noteAssume("A3: sync/atomic operations are plain reads/writes (sequential semantics)")
		switch {
		case strings.HasPrefix(name, "atomic.Load"):
			v, _ := x.eval(u.X, st)
			return v, true
		case strings.HasPrefix(name, "atomic.Store"):
			x.assignTo(u.X, args[1], x.typeOf(u.X), st)
			return intLit(0), true
		default:
			cur, t := x.eval(u.X, st)
			nv := x.wrapAlways(Term{"(+ " + asTerm(cur).S + " " + asTerm(args[1]).S + ")", SInt}, t)
			x.assignTo(u.X, nv, t, st)
			return nv, true
		}
	}
	return nil, false
}

func (x *Exec) wrapAlways(t Term, typ types.Type) Term {
	m := x.mode
	x.mode = "wrap"
	defer func() { x.mode = m }()
	return x.wrap(t, typ)
}

func (x *Exec) evalConversion(e *ast.CallExpr, to types.Type, st *State) (Value, types.Type) {
	v, from := x.eval(e.Args[0], st)
	if fv, ok := v.(*FuncV); ok {
		return fv, to
	}
	t := asTerm(v)
	ts := x.sortOf(to)
	if t.Sort == ts && !ts.isBV() {
		// integer to integer in Int modes: truncation/sign change
		if fb, ok := typeBasic(from); ok && fb.Info()&types.IsInteger != 0 {
			if tb, ok := typeBasic(to); ok && tb.Info()&types.IsInteger != 0 {
				if x.mode == "wrap" {
					return x.wrap(t, to), to
				}
				lo, hi := intRange(tb)
				flo, fhi := intRange(fb)
				if !(rangeWithin(flo, fhi, lo, hi)) {
					return x.wrapAlways(t, to), to
				}
			}
		}
		return t, to
	}
	if t.Sort.isBV() && ts.isBV() {
		fw, tw := t.Sort.width(), ts.width()
		switch {
		case fw == tw:
			return Term{t.S, ts}, to
		case fw > tw:
			return Term{fmt.Sprintf("((_ extract %d 0) %s)", tw-1, t.S), ts}, to
		default:
			ext := "sign_extend"
			if b, ok := typeBasic(from); ok && isUnsigned(b) {
				ext = "zero_extend"
			}
			return Term{fmt.Sprintf("((_ %s %d) %s)", ext, tw-fw, t.S), ts}, to
		}
	}
	if t.Sort == SStr && ts == SStr {
		return t, to
	}
	// other conversions (float<->int, string<->bytes, named types): uninterpreted, by type pair
	name := "conv_" + sanitize(types.TypeString(from, nil)) + "_to_" + sanitize(types.TypeString(to, nil))
	return x.uf(name, ts, t), to
}

func rangeWithin(flo, fhi, lo, hi string) bool {
	p := func(s string) *bigInt {
		neg := strings.HasPrefix(s, "(- ")
		s = strings.TrimSuffix(strings.TrimPrefix(s, "(- "), ")")
		b, _ := new(bigInt).SetString(s, 10)
		if neg {
			b.Neg(b)
		}
		return b
	}
	return p(flo).Cmp(p(lo)) >= 0 && p(fhi).Cmp(p(hi)) <= 0
}

func (x *Exec) evalBuiltin(name string, e *ast.CallExpr, st *State) (Value, types.Type) {
	switch name {
	case "len", "cap":
		v, t := x.eval(e.Args[0], st)
		a := asTerm(v)
		if a.Sort == SStr {
			return Term{"(str.len " + a.S + ")", SInt}, types.Typ[types.Int]
		}
		switch u := t.Underlying().(type) {
		case *types.Slice:
			if name == "cap" {
				c := x.uf("scap", SInt, a)
				st.assume("(>= " + c.S + " " + x.slen(a).S + ")")
				return c, types.Typ[types.Int]
			}
			return x.slen(a), types.Typ[types.Int]
		case *types.Array:
			return intLit(u.Len()), types.Typ[types.Int]
		case *types.Map:
			l := x.uf("mlen", SInt, a)
			st.assume("(>= " + l.S + " 0)")
			return l, types.Typ[types.Int]
		case *types.Chan:
			return x.fresh("chlen", SInt), types.Typ[types.Int]
		}
		engineFail("len of %s", t)
	case "append":
		v, t := x.eval(e.Args[0], st)
		base := asTerm(v)
		sl := t.Underlying().(*types.Slice)
		es := x.sortOf(sl.Elem())
		if e.Ellipsis.IsValid() {
			ov := x.evalT(e.Args[1], st)
			n := Term{"(+ " + x.slen(base).S + " " + x.slen(ov).S + ")", SInt}
			dstArr := x.fresh("appended", arraySort(SInt, es))
			h := x.newSlice(st, n, es, &dstArr, sl.Elem())
			dst, s1, s2 := dstArr, x.sliceArr(st, base, es, sl.Elem()), x.sliceArr(st, ov, es, sl.Elem())
			st.assume(fmt.Sprintf("(forall ((i Int)) (! (= (select %s i) (ite (< i %s) (select %s i) (select %s (- i %s)))) :pattern ((select %s i))))", dst.S, x.slen(base).S, s1.S, s2.S, x.slen(base).S, dst.S))
			if x.isLocStruct(sl.Elem()) {
				// struct values are copied into the result's own element variables
				x.sliceSetArr(st, h, es, x.structElems(st, sl.Elem(), n, &dst), sl.Elem())
			}
			return h, t
		}
		arr := x.sliceArr(st, base, es, sl.Elem())
		for i, a := range e.Args[1:] {
			av := x.evalT(a, st)
			arr = Term{fmt.Sprintf("(store %s (+ %s %d) %s)", arr.S, x.slen(base).S, i, av.S), arr.Sort}
		}
		n := Term{fmt.Sprintf("(+ %s %d)", x.slen(base).S, len(e.Args)-1), SInt}
		x.noteAssume("append yields a fresh slice value (sharing of spare capacity with the operand is not modelled)")
		if x.isLocStruct(sl.Elem()) {
			arr = x.structElems(st, sl.Elem(), n, &arr)
		}
		return x.newSlice(st, n, es, &arr, sl.Elem()), t
	case "make":
		t := x.typeOf(e.Args[0])
		switch u := t.Underlying().(type) {
		case *types.Slice:
			es := x.sortOf(u.Elem())
			n := x.evalT(e.Args[1], st)
			x.safety(st, "make-len", e, "(>= "+n.S+" 0)")
			arr := Term{"((as const " + string(arraySort(SInt, es)) + ") " + zeroOf(es).S + ")", arraySort(SInt, es)}
			if x.isLocStruct(u.Elem()) {
				arr = x.structElems(st, u.Elem(), n, nil)
			}
			h := x.newSlice(st, n, es, &arr, u.Elem())
			return h, t
		case *types.Map:
			ks, vs := x.sortOf(u.Key()), x.sortOf(u.Elem())
			m := x.newRef(st, "map")
			x.mapSet(st, m, ks, vs, Term{"((as const " + string(arraySort(ks, SBool)) + ") false)", ""}, Term{"((as const " + string(arraySort(ks, vs)) + ") " + zeroOf(vs).S + ")", ""})
			return m, t
		case *types.Chan:
			c := x.newRef(st, "chan")
			arr := x.heapGet(st, "CH_closed", arraySort(SInt, SBool))
			st.heap["CH_closed"] = Term{"(store " + arr.S + " " + c.S + " false)", arr.Sort} // a new channel is open
			return c, t
		}
	case "new":
		t := x.typeOf(e.Args[0])
		if x.isLocStruct(t) {
			return x.zeroValue(st, t), types.NewPointer(t)
		}
		p := x.newRef(st, "ptr")
		return p, types.NewPointer(t)
	case "panic":
		x.evalArgs(e.Args, st)
		st.out = outPanic
		st.note = types.ExprString(e)
		return intLit(0), nil
	case "recover":
		rv := x.fresh("recovered", SInt)
		st.names["recoverResult"] = rv
		return rv, x.typeOf(e)
	case "copy":
		dv, dt := x.eval(e.Args[0], st)
		sv, _ := x.eval(e.Args[1], st)
		dst, src := asTerm(dv), asTerm(sv)
		sl, ok := dt.Underlying().(*types.Slice)
		if !ok || src.Sort != SInt {
			engineFail("copy on %s is not modelled", dt)
		}
		es := x.sortOf(sl.Elem())
		n := x.fresh("ncopy", SInt)
		st.assume(fmt.Sprintf("(= %s (ite (<= %s %s) %s %s))", n.S, x.slen(dst).S, x.slen(src).S, x.slen(dst).S, x.slen(src).S))
		oldArr, srcArr := x.sliceArr(st, dst, es, sl.Elem()), x.sliceArr(st, src, es, sl.Elem())
		na := x.fresh("copied", arraySort(SInt, es))
		st.assume(fmt.Sprintf("(forall ((i Int)) (! (= (select %s i) (ite (and (<= 0 i) (< i %s)) (select %s i) (select %s i))) :pattern ((select %s i))))", na.S, n.S, srcArr.S, oldArr.S, na.S))
		x.sliceSetArr(st, dst, es, na, sl.Elem())
		return n, types.Typ[types.Int]
	case "delete":
		mv, mt := x.eval(e.Args[0], st)
		k := x.evalT(e.Args[1], st)
		u := mt.Underlying().(*types.Map)
		ks, vs := x.sortOf(u.Key()), x.sortOf(u.Elem())
		m := asTerm(mv)
		has := x.mapHas(st, m, ks, vs)
		x.mapSet(st, m, ks, vs, Term{"(store " + has.S + " " + k.S + " false)", has.Sort}, x.mapVal(st, m, ks, vs))
		return intLit(0), nil
	case "close":
		// ghost heap CH_closed: which channels have been closed (closed(c) in contracts)
		cv := x.evalT(e.Args[0], st)
		arr := x.heapGet(st, "CH_closed", arraySort(SInt, SBool))
		st.heap["CH_closed"] = Term{"(store " + arr.S + " " + cv.S + " true)", arr.Sort}
		return intLit(0), nil
	case "real", "imag":
		v := x.evalT(e.Args[0], st)
		return x.uf("c"+name, SInt, v), x.typeOf(e)
	case "complex":
		a, b := x.evalT(e.Args[0], st), x.evalT(e.Args[1], st)
		return x.uf("ccomplex", SInt, a, b), x.typeOf(e)
	case "min", "max":
		a, t := x.eval(e.Args[0], st)
		b := x.evalT(e.Args[1], st)
		op := "<="
		if name == "max" {
			op = ">="
		}
		return ite("("+op+" "+asTerm(a).S+" "+b.S+")", asTerm(a), b), t
	}
	engineFail("unsupported builtin %s", name)
	return nil, nil
}

// ---------------------------------------------------------------------------------------------
// contracts at call sites

func (x *Exec) lookupContract(f *types.Func) *Contract {
	if f == nil || f.Pkg() == nil {
		return nil
	}
	key := f.Pkg().Name() + "."
	if sig, ok := f.Type().(*types.Signature); ok && sig.Recv() != nil {
		key += typeNameShort(sig.Recv().Type()) + "."
	}
	return x.db.ByKey[key+f.Name()]
}

// applyContract: assert the callee's preconditions, havoc its frame, assume its postconditions.
func (x *Exec) applyContract(c *Contract, f *types.Func, e *ast.CallExpr, args []Value, st *State) Value {
	c.used = true
	sig := f.Type().(*types.Signature)
	pre := st.clone()
	// bind contract names to actuals in a scratch state
	bind := func(s *State) {
		i := 0
		if sig.Recv() != nil {
			if len(c.Params) > 0 {
				s.names[c.Params[0]] = args[0]
				s.names["$type:"+c.Params[0]] = sig.Recv().Type()
			}
			i = 1
		}
		for j := 0; j < sig.Params().Len() && i < len(c.Params) && i < len(args); j, i = j+1, i+1 {
			s.names[c.Params[i]] = args[i]
			s.names["$type:"+c.Params[i]] = sig.Params().At(j).Type()
		}
	}
	save := x.saveContractCtx()
	defer x.restoreContractCtx(save)
	x.contract = true
	x.conScope = map[string]types.Object{}
	calleeUnit := calleeName(f)
	shadowed := map[string]Value{}
	for _, n := range append(append([]string{}, c.Params...), c.Results...) {
		for _, k := range []string{n, "$type:" + n} {
			if v, ok := st.names[k]; ok {
				shadowed[k] = v
			}
		}
	}
	for _, l := range c.Lets {
		for _, k := range []string{l.Label, "$type:" + l.Label} {
			if v, ok := st.names[k]; ok {
				shadowed[k] = v
			}
		}
	}
	bind(st)
	for _, l := range c.Lets {
		v, t := x.eval(l.Expr, st)
		st.names[l.Label] = v
		if t != nil {
			st.names["$type:"+l.Label] = t
		}
	}
	site := types.ExprString(e.Fun)
	for _, r := range c.Requires {
		if r.Prop != "" && r.Prop != "assume" && !propIn(r.Prop, x.prop) {
			continue // a precondition that belongs to another property's reading of the contract
		}
		if r.Prop == "assume" {
			continue
		}
		lab := r.Label
		if lab == "" {
			lab = "requires"
		}
		phi := x.evalBool(r.Expr, st)
		x.contract = false
		ob := x.oblige(st, "pre", lab+"@"+site, phi, r.Src)
		if r.Prop != "" && propIn(r.Prop, x.prop) {
			ob.Prop = x.prop
		}
		x.contract = true
	}
	for _, p := range c.Panics {
		phi := x.evalBool(p.Expr, st)
		x.contract = false
		cond := not(phi)
		if x.allowPanic != "" {
			cond = or(cond, x.allowPanic)
		}
		x.oblige(st, "safe", "callee-panics@"+site, cond, p.Src)
		x.contract = true
		st.assume(not(phi))
	}
	*pre = *st.clone()
	// havoc frame
	if !c.Pure && c.HasMod {
		// object-level frame (verified against the callee's body when the contract is not trusted):
		// only the listed fields of the listed objects change
		for _, mt := range x.modTargets(c, st) {
			arr := x.heapGet(st, mt.key, arraySort(SInt, mt.sort))
			st.heap[mt.key] = Term{"(store " + arr.S + " " + mt.ref.S + " " + x.fresh("mod_"+sanitize(mt.key), mt.sort).S + ")", arr.Sort}
		}
	}
	if !c.Pure && !c.HasMod {
		for _, a := range c.Assigns {
			x.heapHavoc(st, a)
		}
		if len(c.Assigns) == 0 && c.Trusted {
			x.noteAssume("trusted contract " + c.Pkg + "." + c.Key + " lists no frame: assumed to leave the modelled heap unchanged")
		}
		if len(c.Assigns) == 0 && c.Opts["function"] != "true" && !c.Trusted {
			// no frame given: everything the callee's body may assign (computed from its source) is havocked
			if fd, fpkg := x.L.funcDeclPkg(f); fd != nil && fd.Body != nil {
				save := x.pkg
				x.pkg = fpkg
				ms := &modSet{vars: map[types.Object]bool{}, heap: map[string]bool{}, visited: map[*types.Func]bool{f: true}}
				x.modified(fd.Body, ms)
				x.pkg = save
				for _, k := range sortedKeys(ms.heap) {
					x.heapHavoc(st, k)
				}
				st.names["$frame:"+calleeUnit] = sortedKeys(ms.heap)
			}
		}
	}
	// a generator with a function-result contract yields a modelled function value
	if len(c.FnEnsures) > 0 && sig.Results().Len() == 1 {
		fsig, ok := sig.Results().At(0).Type().Underlying().(*types.Signature)
		if !ok {
			engineFail("result-fn on %s: result is not a function", calleeUnit)
		}
		genArgs := map[string]Value{}
		genTypes := map[string]types.Type{}
		for i, pn := range c.Params {
			if i < len(args) {
				genArgs[pn] = args[i]
				j := i
				if sig.Recv() != nil {
					j = i - 1
				}
				if j >= 0 && j < sig.Params().Len() {
					genTypes[pn] = sig.Params().At(j).Type()
				}
			}
		}
		for _, n := range c.Params {
			delete(st.names, n)
			delete(st.names, "$type:"+n)
		}
		if c.Trusted {
			x.noteAssume("trusted function-result contract: " + c.Pkg + "." + c.Key)
		}
		return &FuncV{Model: &FnModel{Name: calleeUnit, Apply: func(x *Exec, s2 *State, fargs []Value) Value {
			save := x.saveContractCtx()
			defer x.restoreContractCtx(save)
			saved := map[string]Value{}
			bindName := func(k string, v Value, t types.Type) {
				for _, kk := range []string{k, "$type:" + k} {
					if old, ok := s2.names[kk]; ok {
						saved[kk] = old
					} else {
						saved[kk] = nil
					}
				}
				s2.names[k] = v
				if t != nil {
					s2.names["$type:"+k] = t
				} else {
					delete(s2.names, "$type:"+k)
				}
			}
			for k, v := range genArgs {
				bindName(k, v, genTypes[k])
			}
			for i, pn := range c.FnParams {
				if i < len(fargs) {
					bindName(pn, fargs[i], fsig.Params().At(i).Type())
				}
			}
			var res TupleV
			for i := 0; i < fsig.Results().Len(); i++ {
				rt := fsig.Results().At(i).Type()
				rv := x.freshOf(s2, "fnr", rt)
				res = append(res, rv)
				if i < len(c.FnResults) {
					bindName(c.FnResults[i], rv, rt)
				}
			}
			x.contract = true
			x.assuming = true
			for _, en := range c.FnEnsures {
				if strings.HasPrefix(en.Prop, "mode:") && en.Prop != "mode:"+x.mode {
					continue
				}
				s2.assume(x.evalBool(en.Expr, s2))
			}
			x.assuming = false
			for k, old := range saved {
				if old == nil {
					delete(s2.names, k)
				} else {
					s2.names[k] = old
				}
			}
			if len(res) == 1 {
				return res[0]
			}
			return res
		}}}
	}
	// results
	var res TupleV
	for i := 0; i < sig.Results().Len(); i++ {
		rt := sig.Results().At(i).Type()
		var rv Term
		if c.Pure || c.Opts["function"] == "true" {
			var ts []Term
			for _, a := range args {
				if t, ok := a.(Term); ok {
					ts = append(ts, t)
				}
			}
			rv = x.uf(fmt.Sprintf("fn_%s_r%d", calleeUnit, i), x.sortOf(rt), ts...)
		} else {
			rv = x.freshOf(st, "r_"+f.Name(), rt)
		}
		x.rangeAssume(st, rv, rt)
		res = append(res, rv)
		if i < len(c.Results) {
			st.names[c.Results[i]] = rv
			st.names["$type:"+c.Results[i]] = rt
		}
	}
	oldSave := st.old
	st.old = pre
	var ghostSave map[string]Value
	if c.Opts["trace-calls"] != "" {
		// the callee's ghost trace is its own (counted from its entry): fresh symbols on the caller's side
		ghostSave = map[string]Value{}
		for _, k := range []string{"tracedCount", "tracedSeq", "$type:tracedArg"} {
			ghostSave[k] = st.names[k]
		}
		x.nfresh++
		st.names["tracedCount"] = x.declConst(fmt.Sprintf("tracedCount_c%d", x.nfresh), SInt)
		st.names["tracedSeq"] = x.declConst(fmt.Sprintf("tracedSeq_c%d", x.nfresh), arraySort(SInt, SInt))
		if fd, fpkg := x.L.funcDeclPkg(f); fd != nil {
			if t := tracedArgType(fd, fpkg.TypesInfo, c.Opts["trace-calls"]); t != nil {
				st.names["$type:tracedArg"] = t
			}
		}
	}
	defer func() {
		for k, v := range ghostSave {
			if v == nil {
				delete(st.names, k)
			} else {
				st.names[k] = v
			}
		}
	}()
	if c.Opts["opaque"] != "true" && c.Opts["opaque-in"] != x.mode {
		x.assuming = true
		for _, en := range c.Ensures {
			if strings.HasPrefix(en.Prop, "local:") {
				continue // about a local of the callee: not visible to callers
			}
			if callRecordRx.MatchString(en.Src) {
				continue // about the callee's own call records (called/lastArg/lastRes): not visible to callers
			}
			st.assume(x.evalBool(en.Expr, st))
		}
		x.assuming = false
	}
	st.old = oldSave
	if c.Trusted {
		x.noteAssume("trusted contract: " + c.Pkg + "." + c.Key)
	}
	// clean names: what the callee's contract bound goes away, what it shadowed (the caller's own
	// contract names, e.g. at a recursive call) comes back
	for _, n := range append(append([]string{}, c.Params...), c.Results...) {
		delete(st.names, n)
		delete(st.names, "$type:"+n)
	}
	for _, l := range c.Lets {
		delete(st.names, l.Label)
		delete(st.names, "$type:"+l.Label)
	}
	for k, v := range shadowed {
		st.names[k] = v
	}
	if len(res) == 1 {
		return res[0]
	}
	if len(res) == 0 {
		return intLit(0)
	}
	return res
}

type conCtx struct {
	contract bool
	conScope map[string]types.Object
	quant    map[string]Term
}

func (x *Exec) saveContractCtx() conCtx { return conCtx{x.contract, x.conScope, x.quant} }
func (x *Exec) restoreContractCtx(c conCtx) {
	x.contract, x.conScope, x.quant = c.contract, c.conScope, c.quant
}

// evalSpecCall evaluates a call inside a contract expression: logical forms, spec functions,
// or program functions (library models / contracted-pure functions).
func (x *Exec) evalSpecCall(e *ast.CallExpr, st *State) (Value, types.Type) {
	name := ""
	switch f := e.Fun.(type) {
	case *ast.Ident:
		name = f.Name
	case *ast.SelectorExpr:
		if id, ok := f.X.(*ast.Ident); ok {
			name = id.Name + "." + f.Sel.Name
		}
	}
	switch name {
	case "implies":
		a := x.evalBool(e.Args[0], st)
		b := x.evalGuarded(e.Args[1], st, a)
		return Term{implies(a, b), SBool}, types.Typ[types.Bool]
	case "iff":
		return Term{"(= " + x.evalBool(e.Args[0], st) + " " + x.evalBool(e.Args[1], st) + ")", SBool}, types.Typ[types.Bool]
	case "ite":
		c := x.evalBool(e.Args[0], st)
		a, t := x.eval(e.Args[1], st)
		b, _ := x.eval(e.Args[2], st)
		return ite(c, asTerm(a), asTerm(b)), t
	case "old":
		if st.old == nil {
			engineFail("old() outside a postcondition")
		}
		o := st.old
		// evaluate in the pre-state, with the current ghost names visible
		tmp := o.clone()
		for k, v := range st.names {
			if _, ok := tmp.names[k]; !ok {
				tmp.names[k] = v
			}
		}
		tmp.old = nil
		// locals that did not exist yet at entry denote their current values (old(g.mode) for a local g
		// reads g's field in the entry heap)
		for ob, v := range st.env {
			if _, ok := tmp.env[ob]; !ok {
				tmp.env[ob] = v
			}
		}
		return x.eval(e.Args[0], tmp)
	case "nth": // nth(f(args), i): the i-th result of a pure multi-result function
		call, ok := e.Args[0].(*ast.CallExpr)
		lit, ok2 := e.Args[1].(*ast.BasicLit)
		if !ok || !ok2 {
			engineFail("nth needs (call, literal index)")
		}
		var idx int
		fmt.Sscan(lit.Value, &idx)
		se, ok := call.Fun.(*ast.SelectorExpr)
		if !ok {
			engineFail("nth: only method calls are supported")
		}
		rv, rt := x.eval(se.X, st)
		obj, _, _ := types.LookupFieldOrMethod(rt, true, x.pkg.Types, se.Sel.Name)
		fn, ok := obj.(*types.Func)
		if !ok {
			engineFail("nth: %s is not a method", se.Sel.Name)
		}
		c := x.lookupContract(fn)
		if c == nil || !c.Pure {
			engineFail("nth: %s has no pure contract", fn.Name())
		}
		args, _ := x.evalArgs(call.Args, st)
		ts := []Term{asTerm(rv)}
		for _, a := range args {
			ts = append(ts, asTerm(a))
		}
		rtype := fn.Type().(*types.Signature).Results().At(idx).Type()
		return x.uf(fmt.Sprintf("fn_%s_r%d", calleeName(fn), idx), x.sortOf(rtype), ts...), rtype
	case "forallS", "existsS", "forallR", "existsR": // over all strings: forallS(k, body); over all references/integers: forallR(x, body)
		id, ok := e.Args[0].(*ast.Ident)
		if !ok || len(e.Args) != 2 {
			engineFail("forallS/existsS/forallR/existsR need (name, body)")
		}
		x.nfresh++
		qn := fmt.Sprintf("%s_q%d", id.Name, x.nfresh)
		saved, had := x.quant[id.Name]
		if x.quant == nil {
			x.quant = map[string]Term{}
		}
		qsort := SStr
		if strings.HasSuffix(name, "R") {
			qsort = SInt
		}
		x.quant[id.Name] = Term{qn, qsort}
		body := x.evalBool(e.Args[1], st)
		if had {
			x.quant[id.Name] = saved
		} else {
			delete(x.quant, id.Name)
		}
		q := "forall"
		if strings.HasPrefix(name, "exists") {
			q = "exists"
		}
		return Term{"(" + q + " ((" + qn + " " + string(qsort) + ")) " + body + ")", SBool}, types.Typ[types.Bool]
	case "rvInt", "rvFloat", "rvComplex", "rvString", "rvBool", "rvIface":
		which := map[string]string{"rvInt": "I", "rvFloat": "F", "rvComplex": "C", "rvString": "S", "rvBool": "B", "rvIface": "X"}[name]
		return x.rvRead(st, which, x.evalT(e.Args[0], st)), nil
	case "tracedAt": // tracedAt(k): the first argument of the k-th traced function-value application
		k := x.evalT(e.Args[0], st)
		seq := asTerm(st.names["tracedSeq"])
		v := Term{"(select " + seq.S + " " + k.S + ")", SInt}
		if t, ok := st.names["$type:tracedArg"].(types.Type); ok {
			return v, t
		}
		return v, nil
	case "arg": // arg(k) inside a call-guard: the k-th explicit argument of the guarded call
		tv, ok := st.names["$guardargs"].(TupleV)
		lit, ok2 := e.Args[0].(*ast.BasicLit)
		if !ok || !ok2 {
			engineFail("arg(k) is only available in a call-guard, with a literal k")
		}
		var k int
		fmt.Sscan(lit.Value, &k)
		if k >= len(tv) {
			engineFail("arg(%d): the guarded call has %d arguments", k, len(tv))
		}
		var at types.Type
		if ts, ok := st.names["$guardargtypes"].([]types.Type); ok && k < len(ts) {
			at = ts[k]
		}
		return tv[k], at
	case "called": // called(f): a call of f (listed in `opt record-calls`) was executed on this path
		id, _ := e.Args[0].(*ast.Ident)
		if id == nil {
			engineFail("called needs a function name")
		}
		_, ok := st.names["$lastres:"+id.Name]
		return boolLit(ok), types.Typ[types.Bool]
	case "lastArg", "lastRes": // argument / result k of the latest recorded call of f (unconstrained when there was none)
		id, _ := e.Args[0].(*ast.Ident)
		lit, _ := e.Args[1].(*ast.BasicLit)
		if id == nil || lit == nil {
			engineFail("%s needs (function name, literal index)", name)
		}
		var k int
		fmt.Sscan(lit.Value, &k)
		sig := x.sigByName(id.Name)
		if name == "lastArg" {
			tv, ok := st.names["$lastargs:"+id.Name].(TupleV)
			if !ok || k >= len(tv) {
				if sig != nil && k < sig.Params().Len() {
					return x.fresh("nocall", x.sortOf(sig.Params().At(k).Type())), sig.Params().At(k).Type()
				}
				return x.fresh("nocall", SInt), nil
			}
			var at types.Type
			if ts, ok := st.names["$lastargtypes:"+id.Name].([]types.Type); ok && k < len(ts) {
				at = ts[k]
			}
			return tv[k], at
		}
		rv, ok := st.names["$lastres:"+id.Name]
		if !ok {
			if sig != nil && k < sig.Results().Len() {
				return x.fresh("nocall", x.sortOf(sig.Results().At(k).Type())), sig.Results().At(k).Type()
			}
			return x.fresh("nocall", SInt), nil
		}
		rt, _ := st.names["$lastrestype:"+id.Name].(types.Type)
		if tv, isT := rv.(TupleV); isT {
			if k >= len(tv) {
				engineFail("lastRes(%s, %d): the call has %d results", id.Name, k, len(tv))
			}
			var et types.Type
			if tt, ok := rt.(*types.Tuple); ok && k < tt.Len() {
				et = tt.At(k).Type()
			}
			return tv[k], et
		}
		return rv.(Value), rt
	case "closed": // closed(c): the channel has been closed (ghost heap written by close and make)
		cv := x.evalT(e.Args[0], st)
		arr := x.heapGet(st, "CH_closed", arraySort(SInt, SBool))
		x.heapGet(newState(), "CH_closed", arraySort(SInt, SBool))
		x.declare("(assert (not (select CH_closed_0 0)))", "ax_nil_chan_open") // a nil channel is never closed
		return Term{"(select " + arr.S + " " + cv.S + ")", SBool}, types.Typ[types.Bool]
	case "lastRecv": // the receiver of the latest recorded call of the method f
		id, _ := e.Args[0].(*ast.Ident)
		if id == nil {
			engineFail("lastRecv needs a method name")
		}
		if v, ok := st.names["$lastrecv:"+id.Name]; ok {
			return v.(Value), nil
		}
		return x.fresh("nocall", SInt), nil
	case "oldAt": // oldAt(m, k): m[k] with m's contents taken in the old state and k evaluated now
		if st.old == nil {
			engineFail("oldAt() outside a postcondition")
		}
		kv, _ := x.eval(e.Args[1], st)
		x.nfresh++
		kn := fmt.Sprintf("oldAtKey%d", x.nfresh)
		if x.quant == nil {
			x.quant = map[string]Term{}
		}
		x.quant[kn] = asTerm(kv)
		defer delete(x.quant, kn)
		ix := &ast.IndexExpr{X: e.Args[0], Index: &ast.Ident{Name: kn}}
		return x.evalSpecCall(&ast.CallExpr{Fun: &ast.Ident{Name: "old"}, Args: []ast.Expr{ix}}, st)
	case "calledAt": // calledAt(k): the k-th function value applied through reflect.Value.Call
		k := x.evalT(e.Args[0], st)
		seq := asTerm(st.names["callSeq"])
		return Term{"(select " + seq.S + " " + k.S + ")", SInt}, nil
	case "atSelect": // evaluate in the state in which reflect.Select was called (current state if it was not)
		if snap, ok := st.names["$selState"].(*State); ok {
			tmp := snap.clone()
			for k, v := range st.names {
				if _, ok := tmp.names[k]; !ok {
					tmp.names[k] = v
				}
			}
			return x.eval(e.Args[0], tmp)
		}
		return x.eval(e.Args[0], st)
	case "forall", "exists":
		// forall(k, lo, hi, body)
		id, ok := e.Args[0].(*ast.Ident)
		if !ok || len(e.Args) != 4 {
			engineFail("forall/exists need (name, lo, hi, body)")
		}
		lo, hi := x.evalT(e.Args[1], st), x.evalT(e.Args[2], st)
		x.nfresh++
		qn := fmt.Sprintf("%s_q%d", id.Name, x.nfresh)
		saved, had := x.quant[id.Name]
		if x.quant == nil {
			x.quant = map[string]Term{}
		}
		x.quant[id.Name] = Term{qn, SInt}
		body := x.evalBool(e.Args[3], st)
		if had {
			x.quant[id.Name] = saved
		} else {
			delete(x.quant, id.Name)
		}
		rng := "(and (<= " + lo.S + " " + qn + ") (< " + qn + " " + hi.S + "))"
		if name == "forall" {
			return Term{"(forall ((" + qn + " Int)) (=> " + rng + " " + body + "))", SBool}, types.Typ[types.Bool]
		}
		return Term{"(exists ((" + qn + " Int)) (and " + rng + " " + body + "))", SBool}, types.Typ[types.Bool]
	case "len":
		v, t := x.eval(e.Args[0], st)
		a := asTerm(v)
		if a.Sort == SStr {
			return Term{"(str.len " + a.S + ")", SInt}, types.Typ[types.Int]
		}
		if t != nil {
			if _, isMap := t.Underlying().(*types.Map); isMap {
				l := x.uf("mlen", SInt, a)
				return l, types.Typ[types.Int]
			}
		}
		return x.slen(a), types.Typ[types.Int]
	case "has": // has(m, k): map membership
		mv, mt := x.eval(e.Args[0], st)
		k := x.evalT(e.Args[1], st)
		u, ok := mt.Underlying().(*types.Map)
		if !ok {
			engineFail("has() needs a map")
		}
		ks, vs := x.sortOf(u.Key()), x.sortOf(u.Elem())
		m := asTerm(mv)
		return Term{"(and (not (= " + m.S + " 0)) (select " + x.mapHas(st, m, ks, vs).S + " " + k.S + "))", SBool}, types.Typ[types.Bool]
	case "fresh": // fresh(x): x was allocated during this call
		v := x.evalT(e.Args[0], st)
		if x.assuming {
			// a callee's postcondition: the result is a new reference
			r := x.newRef(st, "res")
			return Term{"(= " + v.S + " " + r.S + ")", SBool}, types.Typ[types.Bool]
		}
		return Term{x.freshCond(st, v), SBool}, types.Typ[types.Bool]
	case "substr":
		s, a, b := x.evalT(e.Args[0], st), x.evalT(e.Args[1], st), x.evalT(e.Args[2], st)
		return Term{"(str.substr " + s.S + " " + a.S + " (- " + b.S + " " + a.S + "))", SStr}, types.Typ[types.String]
	}
	// a generator local holding a modelled function value (dest, v0, ...), applied in a contract
	if id, ok := e.Fun.(*ast.Ident); ok && x.inlineLitPos.IsValid() {
		if sc := x.pkg.Types.Scope().Innermost(x.inlineLitPos); sc != nil {
			if _, o := sc.LookupParent(id.Name, x.inlineLitPos); o != nil {
				if fv, ok := st.env[o].(*FuncV); ok && fv.Model != nil {
					args, _ := x.evalArgs(e.Args, st)
					return fv.Model.Apply(x, st, args), nil
				}
			}
		}
	}
	_, funIsIndex := e.Fun.(*ast.IndexExpr)
	if (x.con != nil && x.con.Opts["fn-values"] == "pure") || funIsIndex {
		// applying a function-typed program expression (captured local, slice or map element): pure lookup
		// (a specification applies function values only as mathematical functions)
		if _, isCall := e.Fun.(*ast.CallExpr); !isCall {
			isSpec := false
			if id, ok := e.Fun.(*ast.Ident); ok {
				_, inNames := st.names[id.Name]
				_, isPred := x.db.Preds[x.pkg.Types.Name()+"."+id.Name]
				_, isSpecFn := x.L.specs[id.Name]
				obj := x.pkg.Types.Scope().Lookup(id.Name)
				_, isFunc := obj.(*types.Func)
				_, isType := obj.(*types.TypeName)
				isSpec = isPred || isSpecFn || isFunc || isType || (!inNames && x.conScope[id.Name] == nil && !x.openCaptured)
				// a function-typed local in scope at the literal / loop the clause belongs to
				if x.inlineLitPos.IsValid() && !isPred && !isSpecFn {
					if sc := x.pkg.Types.Scope().Innermost(x.inlineLitPos); sc != nil {
						if _, o := sc.LookupParent(id.Name, x.inlineLitPos); o != nil {
							if v, ok := o.(*types.Var); ok {
								if _, isSig := v.Type().Underlying().(*types.Signature); isSig {
									if _, has := st.env[o]; has {
										isSpec = false
									}
								}
							}
						}
					}
				}
				switch id.Name {
				case "implies", "iff", "ite", "old", "forall", "exists", "len", "has", "fresh", "substr", "nth", "forallS", "existsS", "forallR", "existsR", "atSelect", "calledAt", "tracedAt", "arg", "called", "lastArg", "lastRes", "lastRecv", "oldAt", "closed", "rvInt", "rvFloat", "rvComplex", "rvString", "rvBool", "rvIface":
					isSpec = true
				}
			}
			if ix, ok := e.Fun.(*ast.IndexExpr); ok || !isSpec {
				_ = ix
				if _, isSel := e.Fun.(*ast.SelectorExpr); !isSel {
					fvv, ft := x.eval(e.Fun, st)
					if ft != nil {
						if sig, ok := ft.Underlying().(*types.Signature); ok && sig.Results().Len() == 1 {
							if t, ok := fvv.(Term); ok {
								args, _ := x.evalArgs(e.Args, st)
								ts := []Term{t}
								for _, a := range args {
									ts = append(ts, asTerm(a))
								}
								if x.sortOf(sig.Results().At(0).Type()) == SBool {
									return x.uf(fmt.Sprintf("applypred%d", len(ts)), SBool, ts...), sig.Results().At(0).Type()
								}
								app := x.uf(fmt.Sprintf("applyfn%d", len(ts)), SInt, ts...)
								if !x.underBinder(app.S) {
									x.declare("(assert (>= "+app.S+" 0))", "ax_app:"+app.S)
								} else {
									x.declare(fmt.Sprintf("(assert (forall ((a Int) (b Int)) (! (>= (applyfn2 a b) 0) :pattern ((applyfn2 a b)))))"), "ax_app_all")
								}
								return app, sig.Results().At(0).Type()
							}
						}
					}
				}
			}
		}
	}
	// contract-level predicate (macro)
	if pr, ok := x.db.Preds[x.pkg.Types.Name()+"."+name]; ok {
		if len(e.Args) != len(pr.Params) {
			engineFail("pred %s: wrong arity", name)
		}
		saved := map[string]Value{}
		var vals []Value
		var typs []types.Type
		for _, a := range e.Args {
			v, t := x.eval(a, st)
			vals = append(vals, v)
			typs = append(typs, t)
		}
		for i, pn := range pr.Params {
			for _, k := range []string{pn, "$type:" + pn} {
				if old, ok := st.names[k]; ok {
					saved[k] = old
				} else {
					saved[k] = nil
				}
			}
			st.names[pn] = vals[i]
			if typs[i] != nil {
				st.names["$type:"+pn] = typs[i]
			} else {
				delete(st.names, "$type:"+pn)
			}
		}
		v, t := x.eval(pr.Body.Expr, st)
		for k, old := range saved {
			if old == nil {
				delete(st.names, k)
			} else {
				st.names[k] = old
			}
		}
		return v, t
	}
	// spec function from /verif/specs
	if sig, ok := x.L.specs[name]; ok {
		var as []string
		for i, a := range e.Args {
			t := x.evalT(a, st)
			if i < len(sig.Args) && t.Sort != sig.Args[i] && sig.Args[i] == SInt {
				if bl, ok := unparen(a).(*ast.BasicLit); ok && bl.Kind == token.INT {
					t = Term{bl.Value, SInt} // an integer literal passed to an Int-sorted spec parameter
				}
			}
			if i < len(sig.Args) && t.Sort != sig.Args[i] {
				engineFail("spec function %s: argument %d has sort %s, want %s", name, i, t.Sort, sig.Args[i])
			}
			as = append(as, t.S)
		}
		if len(as) != len(sig.Args) {
			engineFail("spec function %s: wrong arity", name)
		}
		if len(as) == 0 {
			return Term{name, sig.Res}, nil
		}
		return Term{"(" + name + " " + strings.Join(as, " ") + ")", sig.Res}, nil
	}
	// method call on a program value: x.M(args) with a library model or a pure contract
	if se, ok := e.Fun.(*ast.SelectorExpr); ok {
		isPkg := false
		if id, ok := se.X.(*ast.Ident); ok {
			if _, isVal := st.names[id.Name]; !isVal && x.conScope[id.Name] == nil && x.quant[id.Name].S == "" {
				for _, imp := range x.pkg.Types.Imports() {
					if imp.Name() == id.Name {
						isPkg = true
					}
				}
			}
		}
		if !isPkg {
			rv, rt := x.eval(se.X, st)
			if rt == nil {
				engineFail("contract: method %s on an untyped spec value", se.Sel.Name)
			}
			obj, _, _ := types.LookupFieldOrMethod(rt, true, x.pkg.Types, se.Sel.Name)
			fn, ok := obj.(*types.Func)
			if !ok {
				engineFail("contract: %s is not a method of %s", se.Sel.Name, rt)
			}
			args, ats := x.evalArgs(e.Args, st)
			args = append([]Value{rv}, args...)
			ats = append([]types.Type{rt}, ats...)
			n := calleeName(fn)
			resT := fn.Type().(*types.Signature).Results()
			var rtype types.Type
			if resT.Len() > 0 {
				rtype = resT.At(0).Type()
			}
			if m, ok := x.libModel(n); ok {
				if v, ok := m(x, st, e, args, ats); ok {
					return v, rtype
				}
			}
			if c := x.lookupContract(fn); c != nil && (c.Pure || c.Opts["function"] == "true") {
				if !c.Pure {
					x.noteAssume("calls of " + n + " are treated as a function of the arguments (the type descriptors it reads are not modified between the calls of one unit)")
				}
				var ts []Term
				for _, a := range args {
					ts = append(ts, asTerm(a))
				}
				return x.uf(fmt.Sprintf("fn_%s_r0", n), x.sortOf(rtype), ts...), rtype
			}
			engineFail("contract: method %s has neither a library model nor a pure contract", n)
		}
	}
	// program-level function used in a contract: library model or package function
	var obj types.Object
	switch f := e.Fun.(type) {
	case *ast.Ident:
		obj = x.pkg.Types.Scope().Lookup(f.Name)
	case *ast.SelectorExpr:
		if id, ok := f.X.(*ast.Ident); ok {
			for _, imp := range x.pkg.Types.Imports() {
				if imp.Name() == id.Name {
					obj = imp.Scope().Lookup(f.Sel.Name)
				}
			}
		}
	}
	if fn, ok := obj.(*types.Func); ok {
		args, ats := x.evalArgs(e.Args, st)
		n := calleeName(fn)
		if m, ok := x.libModel(n); ok {
			if v, ok := m(x, st, e, args, ats); ok {
				return v, fn.Type().(*types.Signature).Results().At(0).Type()
			}
		}
		if c := x.lookupContract(fn); c != nil && (c.Pure || c.Opts["function"] == "true") {
			var ts []Term
			for _, a := range args {
				ts = append(ts, asTerm(a))
			}
			rt := fn.Type().(*types.Signature).Results().At(0).Type()
			return x.uf(fmt.Sprintf("fn_%s_r0", n), x.sortOf(rt), ts...), rt
		}
	}
	if tn, ok := obj.(*types.TypeName); ok && len(e.Args) == 1 {
		v, _ := x.eval(e.Args[0], st)
		return v, tn.Type()
	}
	engineFail("contract of %s: unknown function %q", x.unit, name)
	return nil, nil
}

// propIn: a clause tag may list several properties ("C09,C10").
func propIn(tag, prop string) bool {
	for _, t := range strings.Split(tag, ",") {
		if strings.TrimSuffix(strings.TrimSpace(t), "!") == prop {
			return true
		}
	}
	return false
}

// tracedArgType: the static type of the first argument of the function-value applications that
// `opt trace-calls` records in this function.
func tracedArgType(fd ast.Node, info *types.Info, names string) types.Type {
	var t types.Type
	want := map[string]bool{}
	for _, w := range strings.Split(names, ",") {
		want[strings.TrimSpace(w)] = true
	}
	ast.Inspect(fd, func(n ast.Node) bool {
		ce, ok := n.(*ast.CallExpr)
		if !ok || len(ce.Args) == 0 || t != nil {
			return true
		}
		nm := ""
		switch fe := unparen(ce.Fun).(type) {
		case *ast.SelectorExpr:
			nm = fe.Sel.Name
			if _, isFn := info.ObjectOf(fe.Sel).(*types.Func); isFn {
				return true
			}
		case *ast.Ident:
			nm = fe.Name
			if _, isFn := info.ObjectOf(fe).(*types.Func); isFn {
				return true
			}
		}
		if want[nm] {
			t = info.TypeOf(ce.Args[0])
		}
		return true
	})
	return t
}

type libModelFn = func(x *Exec, st *State, e *ast.CallExpr, a []Value, ats []types.Type) (Value, bool)

// libModel looks a library model up; `opt uf-lib = f, g` keeps the listed single-result string
// functions uninterpreted in this unit (their exact meaning is not needed and costs solver time).
func (x *Exec) libModel(name string) (libModelFn, bool) {
	if x.con != nil && x.con.Opts["uf-lib"] != "" {
		for _, w := range strings.Split(x.con.Opts["uf-lib"], ",") {
			if strings.TrimSpace(w) == name {
				return func(x *Exec, st *State, e *ast.CallExpr, a []Value, _ []types.Type) (Value, bool) {
					var ts []Term
					for _, v := range a {
						ts = append(ts, asTerm(v))
					}
					so := SStr
					if t := x.info().TypeOf(e); t != nil {
						so = x.sortOf(t)
					}
					return x.uf("lib_"+name, so, ts...), true
				}, true
			}
		}
	}
	m, ok := libModels[name]
	if !ok && strings.HasPrefix(name, "types.") {
		// go/types is a functional API: its accessors are pure functions of their (non-function) arguments
		if so, ok2 := x.goTypesResultSort(name); ok2 {
			return func(x *Exec, st *State, e *ast.CallExpr, a []Value, _ []types.Type) (Value, bool) {
				var ts []Term
				for _, v := range a {
					if t, isT := v.(Term); isT {
						ts = append(ts, t)
					}
				}
				x.noteAssume("go/types accessors are pure functions (" + name + ")")
				return x.uf("lib_"+name, so, ts...), true
			}, true
		}
	}
	return m, ok
}

// goTypesResultSort: the sort of the single result of go/types' function or method `types.[T.]name`.
func (x *Exec) goTypesResultSort(name string) (Sort, bool) {
	var tp *types.Package
	for _, imp := range x.pkg.Types.Imports() {
		if imp.Path() == "go/types" {
			tp = imp
		}
	}
	if tp == nil {
		return "", false
	}
	parts := strings.Split(strings.TrimPrefix(name, "types."), ".")
	var sig *types.Signature
	switch len(parts) {
	case 1:
		if fn, ok := tp.Scope().Lookup(parts[0]).(*types.Func); ok {
			sig = fn.Type().(*types.Signature)
		}
	case 2:
		// methods promoted from the unexported `object` are named types.object.M by calleeName
		cands := []string{parts[0]}
		if parts[0] == "object" {
			cands = []string{"Var", "Func", "TypeName", "Const"}
		}
		for _, tn := range cands {
			if o := tp.Scope().Lookup(tn); o != nil {
				if m, _, _ := types.LookupFieldOrMethod(types.NewPointer(o.Type()), true, tp, parts[1]); m != nil {
					if fn, ok := m.(*types.Func); ok {
						sig = fn.Type().(*types.Signature)
					}
				}
			}
		}
	}
	if sig == nil || sig.Results().Len() != 1 {
		return "", false
	}
	return x.sortOf(sig.Results().At(0).Type()), true
}

type modTarget struct {
	key  string
	sort Sort
	ref  Term
}

// modTargets resolves the `modifies p.f` entries of a contract whose parameter names are bound in st.
func (x *Exec) modTargets(c *Contract, st *State) []modTarget {
	var out []modTarget
	for _, m := range c.Modifies {
		i := strings.LastIndex(m, ".")
		if i <= 0 {
			engineFail("modifies %q of %s.%s: want <param>.<field>", m, c.Pkg, c.Key)
		}
		pn, fn := m[:i], m[i+1:]
		var v Value
		var t types.Type
		if pv, ok := st.names[pn]; ok {
			v = pv
			t, _ = st.names["$type:"+pn].(types.Type)
		} else {
			// an object expression over the parameters, evaluated in the state before the call
			pe, err := parser.ParseExpr(pn)
			if err != nil {
				engineFail("modifies %q of %s.%s: %v", m, c.Pkg, c.Key, err)
			}
			save := x.contract
			x.contract = true
			v, t = x.eval(pe, st)
			x.contract = save
		}
		if v == nil || t == nil {
			engineFail("modifies %q of %s.%s: cannot resolve %s", m, c.Pkg, c.Key, pn)
		}
		owner := t
		if p, ok := owner.Underlying().(*types.Pointer); ok {
			owner = p.Elem()
		}
		stt, ok := owner.Underlying().(*types.Struct)
		if !ok {
			engineFail("modifies %q of %s.%s: %s is not a struct (pointer)", m, c.Pkg, c.Key, pn)
		}
		found := false
		for k := 0; k < stt.NumFields(); k++ {
			if f := stt.Field(k); f.Name() == fn {
				out = append(out, modTarget{x.fieldKey(owner, f), x.sortOf(f.Type()), asTerm(v)})
				found = true
			}
		}
		if !found {
			engineFail("modifies %q of %s.%s: no such field", m, c.Pkg, c.Key)
		}
	}
	return out
}

// Lock tracking (`opt locks = track`): the locks this activation holds, kept per path as the owner
// expressions of the mutexes (x.mutex.Lock() -> owner x).  Go's mutexes are not re-entrant: locking a
// mutex the activation already holds, and calling an unknown function value (which may lock the frame it
// was created in — getFunc's functions do) while holding one, are reported.
type heldLock struct {
	owner string // SMT term of the owner
	text  string // source text of the mutex expression
	write bool
}

func (x *Exec) trackLock(name string, e *ast.CallExpr, st *State) {
	se, ok := unparen(e.Fun).(*ast.SelectorExpr)
	if !ok {
		return
	}
	text := types.ExprString(se.X)
	owner := text
	if me, ok := unparen(se.X).(*ast.SelectorExpr); ok {
		save := x.contract
		v, _ := x.eval(me.X, st)
		x.contract = save
		owner = asTerm(v).S + "." + me.Sel.Name
	}
	held, _ := st.names["$locks"].([]heldLock)
	switch {
	case strings.HasSuffix(name, ".Lock"), strings.HasSuffix(name, ".RLock"):
		w := strings.HasSuffix(name, ".Lock")
		for _, h := range held {
			if h.owner == owner && (h.write || w) {
				x.oblige(st, "lock", "not-held@"+text+"."+se.Sel.Name, "false", "a mutex is not re-entrant: "+text+" is already held on this path")
			}
		}
		st.names["$locks"] = append(append([]heldLock{}, held...), heldLock{owner, text, w})
	default:
		out := append([]heldLock{}, held...)
		for i := len(out) - 1; i >= 0; i-- {
			if out[i].owner == owner {
				out = append(out[:i], out[i+1:]...)
				break
			}
		}
		st.names["$locks"] = out
	}
}

// lockedCall: an unknown function value is applied; no tracked lock may be held.
func (x *Exec) lockedCall(what string, st *State) {
	if x.con == nil || x.con.Opts["locks"] != "track" || x.contract {
		return
	}
	held, _ := st.names["$locks"].([]heldLock)
	for _, h := range held {
		x.oblige(st, "lock", "free-across-call@"+what+"["+h.text+"]", "false", "no lock is held while an arbitrary function value runs: "+h.text+" is held across "+what)
	}
}
