package main

import (
	"fmt"
	"go/ast"
	"go/parser"
	"go/printer"
	"go/token"
	"go/types"
	"os"
	"path/filepath"
	"sort"
	"strconv"
	"strings"
)

// restrictedTables: ground obligations of C13 over the default symbol tables (package stdlib).
func (r *Run) restrictedTables() {
	p := r.L.ByName["stdlib"]
	if p == nil {
		r.engineError("package stdlib not loaded")
		return
	}
	keys := map[string]tableLit{}
	for _, t := range symbolTables(p.Syntax) {
		keys[t.Key] = t
	}
	for _, k := range []string{"unsafe/unsafe", "syscall/syscall", "os/exec/exec"} {
		_, present := keys[k]
		r.ground("stdlib/default-table/absent["+k+"]", "the default symbol table has no package "+k, !present, "stdlib.Symbols defines "+k)
	}
	// exit entry points are bound to the restricted replacements
	names := []string{}
	for n := range restrictedNames {
		names = append(names, n)
	}
	sort.Strings(names)
	for _, rn := range names {
		dot := strings.Index(rn, ".")
		pkgName, key := rn[:dot], rn[dot+1:]
		t, ok := keys[pkgName+"/"+pkgName]
		if !ok {
			r.engineError("table %s not found", pkgName)
			continue
		}
		bound := ""
		for _, el := range t.Lit.Elts {
			kv := el.(*ast.KeyValueExpr)
			if k, _ := strconv.Unquote(kv.Key.(*ast.BasicLit).Value); k == key {
				_, target, _, _ := entryForm(kv.Value)
				if id, ok := target.(*ast.Ident); ok {
					if o := p.TypesInfo.ObjectOf(id); o != nil && o.Pkg() == p.Types {
						bound = id.Name
					}
				} else if target != nil {
					bound = types.ExprString(target)
				}
			}
		}
		r.ground("stdlib/default-table/restricted["+rn+"]", rn+" is bound to the replacement "+restrictedNames[rn], bound == restrictedNames[rn], rn+" is bound to "+bound)
	}
	// no binding hands out an unwrapped *log.Logger (its Fatal methods exit the host)
	var logger types.Type
	for _, imp := range p.Types.Imports() {
		if imp.Path() == "log" {
			logger = types.NewPointer(imp.Scope().Lookup("Logger").Type())
		}
	}
	leaks := 0
	checked := 0
	var tkeys []string
	for k := range keys {
		tkeys = append(tkeys, k)
	}
	sort.Strings(tkeys)
	for _, tk := range tkeys {
		t := keys[tk]
		i := strings.LastIndex(tk, "/")
		if i < 0 {
			continue
		}
		for _, el := range t.Lit.Elts {
			kv, ok := el.(*ast.KeyValueExpr)
			if !ok {
				continue
			}
			key, _ := strconv.Unquote(kv.Key.(*ast.BasicLit).Value)
			form, target, _, _ := entryForm(kv.Value)
			if target == nil || strings.HasPrefix(key, "_") {
				continue
			}
			var obj types.Object
			switch x := target.(type) {
			case *ast.SelectorExpr:
				obj = p.TypesInfo.ObjectOf(x.Sel)
			case *ast.Ident:
				obj = p.TypesInfo.ObjectOf(x)
			}
			if obj == nil || logger == nil {
				continue
			}
			checked++
			leak := ""
			switch o := obj.(type) {
			case *types.Func:
				res := o.Type().(*types.Signature).Results()
				for j := 0; j < res.Len(); j++ {
					if types.Identical(res.At(j).Type(), logger) {
						leak = fmt.Sprintf("%s.%s returns an unwrapped *log.Logger", tk[:i], key)
					}
				}
			case *types.Var:
				if form == "var" && types.Identical(o.Type(), logger) {
					leak = fmt.Sprintf("variable %s.%s is an unwrapped *log.Logger", tk[:i], key)
				}
			}
			if leak != "" {
				leaks++
				r.ground("stdlib/default-table/no-unwrapped-logger["+tk[:i]+"."+key+"]", "no binding of the default table yields a *log.Logger whose Fatal methods exit the host", false, leak)
			}
		}
	}
	r.ground("stdlib/default-table/no-unwrapped-logger", fmt.Sprintf("none of the %d function/variable bindings yields an unwrapped *log.Logger", checked), leaks == 0, "")
	if leaks > 0 {
		r.Obls = r.Obls[:len(r.Obls)-1]
	}
	r.Extra["bindings_checked_for_logger_leak"] = checked
	// no function of restricted.go calls an exiting function
	exiting := map[string]bool{"os.Exit": true, "syscall.Exit": true, "log.Fatal": true, "log.Fatalf": true, "log.Fatalln": true,
		"log.Logger.Fatal": true, "log.Logger.Fatalf": true, "log.Logger.Fatalln": true}
	var bad []string
	nfun := 0
	for fn, fd := range r.L.decls {
		if r.L.declPkg[fn] != p || fd.Body == nil || shortFile(r.L.Fset.Position(fd.Pos()).Filename) != "restricted.go" {
			continue
		}
		nfun++
		ast.Inspect(fd.Body, func(n ast.Node) bool {
			if c, ok := n.(*ast.CallExpr); ok {
				if nm := calleeNameOf(p, c); exiting[nm] {
					bad = append(bad, fn.Name()+" calls "+nm)
				}
			}
			return true
		})
	}
	sort.Strings(bad)
	r.frameObl("stdlib/restricted.go/calls-no-exit", fmt.Sprintf("none of the %d functions of restricted.go calls os.Exit, syscall.Exit, log.Fatal* or (*log.Logger).Fatal*", nfun), len(bad) == 0, strings.Join(bad, "; "))
}

// fixStdlibShape: the stream/argument redirection installed by fixStdlib, as ground obligations on
// the shape of each installed closure.
func (r *Run) fixStdlibShape() {
	p := r.L.ByName["interp"]
	fd := r.L.FindFunc(p, "fixStdlib")
	if fd == nil {
		r.engineError("fixStdlib does not exist in the current tree")
		return
	}
	src := map[string]string{} // local -> initialiser text
	assigns := map[string]ast.Expr{}
	var guardStack []string
	var walk func(n ast.Node, guard string)
	envGuarded := map[string]bool{}
	walk = func(n ast.Node, guard string) {
		ast.Inspect(n, func(m ast.Node) bool {
			switch m := m.(type) {
			case *ast.FuncLit:
				return false
			case *ast.IfStmt:
				g := guard
				if m.Init != nil {
					walk(m.Init, guard)
					if as, ok := m.Init.(*ast.AssignStmt); ok && len(as.Rhs) == 1 {
						g += "&&init:" + types.ExprString(as.Rhs[0])
					}
				}
				g += "&&" + types.ExprString(m.Cond)
				walk(m.Body, g)
				if m.Else != nil {
					walk(m.Else, guard+"&&!("+types.ExprString(m.Cond)+")")
				}
				return false
			case *ast.AssignStmt:
				if len(m.Lhs) == len(m.Rhs) {
					for i, l := range m.Lhs {
						if id, ok := l.(*ast.Ident); ok {
							src[id.Name] = types.ExprString(m.Rhs[i])
						}
						if ix, ok := l.(*ast.IndexExpr); ok {
							if bl, ok := ix.Index.(*ast.BasicLit); ok {
								k, _ := strconv.Unquote(bl.Value)
								assigns[guardPkg(guard)+"."+k] = m.Rhs[i]
								if strings.Contains(guard, "!interp.unrestricted") {
									envGuarded[k] = true
								}
							}
						}
					}
				}
			}
			return true
		})
	}
	_ = guardStack
	walk(fd.Body, `p=fmt`)
	chk := func(name, want string, ok bool, got string) {
		r.ground("interp.fixStdlib/redirect["+name+"]", want, ok, got)
	}
	chk("streams", "stdin, stdout, stderr are interp.stdin, interp.stdout, interp.stderr", src["stdin"] == "interp.stdin" && src["stdout"] == "interp.stdout" && src["stderr"] == "interp.stderr", fmt.Sprintf("stdin=%s stdout=%s stderr=%s", src["stdin"], src["stdout"], src["stderr"]))
	body := func(e ast.Expr) string {
		c, ok := e.(*ast.CallExpr)
		if !ok || len(c.Args) != 1 {
			return types.ExprString(e)
		}
		l, ok := c.Args[0].(*ast.FuncLit)
		if !ok {
			return types.ExprString(c.Args[0])
		}
		var parts []string
		for _, s := range l.Body.List {
			switch s := s.(type) {
			case *ast.ReturnStmt:
				var rs []string
				for _, x := range s.Results {
					rs = append(rs, types.ExprString(x))
				}
				parts = append(parts, "return "+strings.Join(rs, ", "))
			case *ast.ExprStmt:
				parts = append(parts, types.ExprString(s.X))
			case *ast.AssignStmt:
				parts = append(parts, types.ExprString(s.Lhs[0])+" "+s.Tok.String()+" "+types.ExprString(s.Rhs[0]))
			default:
				parts = append(parts, "?")
			}
		}
		return strings.Join(parts, "; ")
	}
	for k, want := range map[string]string{
		"fmt.Print": "return fmt.Fprint(stdout, a...)", "fmt.Printf": "return fmt.Fprintf(stdout, f, a...)", "fmt.Println": "return fmt.Fprintln(stdout, a...)",
		"fmt.Scan": "return fmt.Fscan(stdin, a...)", "fmt.Scanf": "return fmt.Fscanf(stdin, f, a...)", "fmt.Scanln": "return fmt.Fscanln(stdin, a...)",
	} {
		got := ""
		if e := assigns[k]; e != nil {
			got = body(e)
		}
		chk(k, k+" is a closure whose only effect is `"+want+"`", got == want, got)
	}
	chk("log.logger", "the log functions are methods of a logger created on interp.stderr", src["l"] == `log.New(stderr, "", log.LstdFlags)`, "l := "+src["l"])
	for _, k := range []string{"Fatal", "Fatalf", "Fatalln", "Flags", "Output", "Panic", "Panicf", "Panicln", "Prefix", "Print", "Printf", "Println", "SetFlags", "SetOutput", "SetPrefix", "Writer"} {
		want := "reflect.ValueOf(l." + strings.Replace(k, "Fatal", "Panic", 1) + ")"
		got := ""
		if e := assigns["log."+k]; e != nil {
			got = types.ExprString(e)
		}
		chk("log."+k, "log."+k+" is "+want, got == want, got)
	}
	got := ""
	if e := assigns["os.Args"]; e != nil {
		got = types.ExprString(e)
	}
	chk("os.Args", "os.Args is the interpreter's argument vector", got == "reflect.ValueOf(&interp.args).Elem()", got)
	got = ""
	if e := assigns["flag.CommandLine"]; e != nil {
		got = types.ExprString(e)
	}
	chk("flag.CommandLine", "flag.CommandLine is a FlagSet of its own writing to interp.stderr", got == "reflect.ValueOf(&c).Elem()" && strings.HasPrefix(src["c"], "flag.NewFlagSet("), got+" ; c := "+src["c"])
	var envKeys []string
	for _, k := range []string{"Clearenv", "ExpandEnv", "Getenv", "LookupEnv", "Setenv", "Unsetenv", "Environ"} {
		envKeys = append(envKeys, k)
		chk("os."+k+"/virtualised", "os."+k+" is replaced in restricted mode", envGuarded[k] && assigns["os."+k] != nil, "not installed under !interp.unrestricted")
	}
	// env closures call no os environment function and read the environment only through interp.env
	hostEnv := map[string]bool{"os.Getenv": true, "os.Setenv": true, "os.Environ": true, "os.LookupEnv": true, "os.Unsetenv": true, "os.Clearenv": true, "os.ExpandEnv": true}
	var badCalls []string
	ast.Inspect(fd.Body, func(n ast.Node) bool {
		if c, ok := n.(*ast.CallExpr); ok {
			if nm := calleeNameOf(p, c); hostEnv[nm] {
				badCalls = append(badCalls, nm)
			}
		}
		return true
	})
	r.frameObl("interp.fixStdlib/env:no-host-env-call", "nothing installed by fixStdlib calls an os environment function of the host", len(badCalls) == 0, strings.Join(badCalls, "; "))
	r.FuncsUC = append(r.FuncsUC, "interp.fixStdlib (shape of every installed closure)")
}

func guardPkg(guard string) string {
	// the innermost `p = interp.binPkg["x"]` guard names the package
	i := strings.LastIndex(guard, `interp.binPkg["`)
	if i < 0 {
		return "fmt"
	}
	rest := guard[i+len(`interp.binPkg["`):]
	return rest[:strings.Index(rest, `"`)]
}

// flagGating (C13): in cmd/yaegi, the three switches that open the dangerous symbol sets are wired each to
// its own name — the environment variable, the command-line flag (whose default is the value read from the
// environment for THAT switch) and the guard of the Use call of THAT symbol set.  Decided on the source
// text of every function of cmd/yaegi that builds a flag set.
func (r *Run) flagGating() {
	dir := filepath.Join(r.Repo, "cmd", "yaegi")
	fset := token.NewFileSet()
	pkgs, err := parser.ParseDir(fset, dir, func(fi os.FileInfo) bool { return !strings.HasSuffix(fi.Name(), "_test.go") }, 0)
	if err != nil {
		r.engineError("cmd/yaegi does not parse: %v", err)
		return
	}
	want := map[string][3]string{ // variable -> env, flag, symbol package
		"useSyscall":      {"YAEGI_SYSCALL", "syscall", "syscall"},
		"useUnsafe":       {"YAEGI_UNSAFE", "unsafe", "unsafe"},
		"useUnrestricted": {"YAEGI_UNRESTRICTED", "unrestricted", "unrestricted"},
	}
	found := 0
	for _, p := range pkgs {
		for fname, f := range p.Files {
			for _, d := range f.Decls {
				fd, ok := d.(*ast.FuncDecl)
				if !ok || fd.Body == nil {
					continue
				}
				src := func(n ast.Node) string { var b strings.Builder; printer.Fprint(&b, fset, n); return b.String() }
				if body := src(fd.Body); !(strings.Contains(body, "syscall.Symbols") || strings.Contains(body, "unsafe.Symbols") || strings.Contains(body, "unrestricted.Symbols")) {
					continue // only the functions that can load a dangerous symbol set
				}
				found++
				unit := "cmd/yaegi." + fd.Name.Name
				_ = fname
				env, flagOf, deflt := map[string]string{}, map[string]string{}, map[string]string{}
				guard := map[string][]string{} // symbol package -> guards of its Use calls
				var walk func(n ast.Node, guards []string)
				walk = func(n ast.Node, guards []string) {
					ast.Inspect(n, func(m ast.Node) bool {
						if m == nil || m == n {
							return true
						}
						switch m := m.(type) {
						case *ast.IfStmt:
							if m.Init != nil {
								walk(m.Init, guards)
							}
							g := append(append([]string{}, guards...), src(m.Cond))
							walk(m.Body, g)
							if m.Else != nil {
								walk(m.Else, guards)
							}
							return false
						case *ast.AssignStmt:
							// useX, _ := strconv.ParseBool(os.Getenv("YAEGI_X"))
							if len(m.Lhs) == 2 && len(m.Rhs) == 1 {
								if id, ok := m.Lhs[0].(*ast.Ident); ok {
									t := src(m.Rhs[0])
									if i := strings.Index(t, `os.Getenv("`); i >= 0 && strings.HasPrefix(t, "strconv.ParseBool(") {
										rest := t[i+len(`os.Getenv("`):]
										env[id.Name] = rest[:strings.Index(rest, `"`)]
									}
								}
							}
						case *ast.CallExpr:
							fn := src(m.Fun)
							if strings.HasSuffix(fn, ".BoolVar") && len(m.Args) >= 3 {
								v := strings.TrimPrefix(src(m.Args[0]), "&")
								flagOf[v] = strings.Trim(src(m.Args[1]), `"`)
								deflt[v] = src(m.Args[2])
							}
							if strings.HasSuffix(fn, ".Use") && len(m.Args) == 1 {
								a := src(m.Args[0])
								if strings.HasSuffix(a, ".Symbols") {
									pk := strings.TrimSuffix(a, ".Symbols")
									guard[pk] = append(guard[pk], strings.Join(guards, " && "))
								}
							}
						}
						return true
					})
				}
				walk(fd.Body, nil)
				for v, w := range want {
					r.frameObl(unit+"/gate["+w[1]+"]/environment", "the switch "+v+" is read from "+w[0], env[v] == w[0], v+" is read from "+env[v])
					r.frameObl(unit+"/gate["+w[1]+"]/flag", "the flag -"+w[1]+" sets "+v+" and defaults to the value read from its own environment variable", flagOf[v] == w[1] && deflt[v] == v, "flag "+flagOf[v]+" with default "+deflt[v])
					ok, why := len(guard[w[2]]) > 0, "no Use of "+w[2]+".Symbols"
					for _, g := range guard[w[2]] {
						if g != v {
							ok, why = false, w[2]+".Symbols is loaded under the guard `"+g+"`"
						}
					}
					r.frameObl(unit+"/gate["+w[1]+"]/guard", w[2]+".Symbols is loaded only when "+v+" is set", ok, why)
				}
				r.FuncsUC = append(r.FuncsUC, unit+" (flag gating)")
			}
		}
	}
	if found == 0 {
		r.frameObl("cmd/yaegi/gates-exist", "cmd/yaegi has functions that load the syscall, unsafe or unrestricted symbols", false, "none found")
	}
}
