package main

import (
	"fmt"
	"go/constant"
	"go/types"
	"regexp"
	"strings"
)

// ground obligations are decided by the generator itself on the concrete source text.
func (r *Run) ground(name, src string, holds bool, witness string) *Obligation {
	o := &Obligation{Name: r.Prop + "/" + name, Prop: r.Prop, Unit: strings.SplitN(name, "/", 2)[0], Kind: "table", Src: src, Backend: "ground-evaluator"}
	if holds {
		o.Res = Result{Status: "unsat", Solver: "ground-evaluator"}
	} else {
		o.Res = Result{Status: "sat", Solver: "ground-evaluator", Model: witness}
	}
	r.Obls = append(r.Obls, o)
	return o
}

func (r *Run) frameObl(name, src string, holds bool, witness string) *Obligation {
	o := r.ground(name, src, holds, witness)
	o.Kind = "frame"
	o.Backend = "frame-checker"
	o.Res.Solver = "frame-checker"
	return o
}

var specSetRx = regexp.MustCompile(`\(= s "([^"]*)"\)`)

// specStringSet extracts the members of a (define-fun name ((s String)) Bool (or (= s "a") ...)) spec.
func (L *Loaded) specStringSet(name string) []string {
	i := strings.Index(L.prelude, "(define-fun "+name+" ")
	if i < 0 {
		engineFail("spec set %s not found", name)
	}
	rest := L.prelude[i:]
	if j := strings.Index(rest[1:], "(define-fun "); j > 0 {
		rest = rest[:j+1]
	}
	var out []string
	for _, m := range specSetRx.FindAllStringSubmatch(rest, -1) {
		out = append(out, m[1])
	}
	return out
}

// tableSuperset: every member of the spec set is a key (with value true) of the package-level map.
func (r *Run) tableSuperset(pkgName, varName, specSet string) {
	p := r.L.ByName[pkgName]
	if p == nil {
		engineFail("package %s not loaded", pkgName)
	}
	o, ok := p.Types.Scope().Lookup(varName).(*types.Var)
	if !ok {
		r.engineError("table %s.%s does not exist in the current tree", pkgName, varName)
		return
	}
	tab := r.L.globalTable(o)
	if tab == nil {
		r.engineError("table %s.%s is not a constant literal that is never reassigned", pkgName, varName)
		return
	}
	have := map[string]bool{}
	for _, kv := range tab {
		if kv[0].Kind() == constant.String && kv[1].Kind() == constant.Bool && constant.BoolVal(kv[1]) {
			have[constant.StringVal(kv[0])] = true
		}
	}
	want := map[string]bool{}
	for _, s := range r.L.specStringSet(specSet) {
		want[s] = true
		r.ground(fmt.Sprintf("%s.%s/table:contains[%s]", pkgName, varName, s), fmt.Sprintf("%s[%q] per %s", varName, s, specSet), have[s], fmt.Sprintf("%s has no entry %q", varName, s))
	}
	for s := range have {
		if !want[s] {
			r.ground(fmt.Sprintf("%s.%s/table:only-known[%s]", pkgName, varName, s), fmt.Sprintf("%s[%q] must be in %s", varName, s, specSet), false, fmt.Sprintf("%s has entry %q that go/build does not know", varName, s))
		}
	}
	r.FuncsUC = append(r.FuncsUC, pkgName+"."+varName+" (table)")
}
