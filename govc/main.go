package main

import (
	"reflect"
	"context"
	"os/exec"
	"strconv"
	"go/ast"
	"go/token"
	"go/types"
	"golang.org/x/tools/go/packages"
	"encoding/json"
	"flag"
	"fmt"
	"os"
	"path/filepath"
	"sort"
	"strings"
	"sync"
	"time"
)

// Run is one invocation of a property check.
type Run struct {
	Prop     string
	Tier     string
	Seed     int64
	Repo     string
	Verif    string
	L        *Loaded
	DB       *ContractDB
	Units    []*UnitResult
	Obls     []*Obligation
	Extra    map[string]interface{} // extra coverage keys
	Assumes  []string
	Bounded  []string
	Covered  []string
	Uncov    []string
	FuncsUC  []string // functions under contract
	EngErrs  []string
	Tmo      int
	Thorough bool
	Only     string
	knownSet map[string]bool
	Dump     string
	t0       time.Time
}

type KnownFinding struct {
	Property   string `json:"property"`
	Obligation string `json:"obligation"`
	Witness    string `json:"witness"`
	Status     string `json:"status"` // open | fixed
	Commit     string `json:"commit,omitempty"`
	What       string `json:"what"`
}

// PropDef registers what a property check consists of.
type PropDef struct {
	ID       string
	Patterns []string // packages to load
	Specs    []string // spec files (besides common)
	Level    string   // evidence level
	Extra    func(r *Run) // additional generators (frame/table/closure units)
	Covered  []string
	Uncov    []string
	Trusted  []string
}

var propDefs = map[string]*PropDef{}

func register(p *PropDef) { propDefs[p.ID] = p }

func main() {
	if len(os.Args) < 2 {
		fmt.Fprintln(os.Stderr, "usage: govc check <property> [--tier quick|thorough] | govc list")
		os.Exit(2)
	}
	switch os.Args[1] {
	case "check":
		os.Exit(cmdCheck(os.Args[2:]))
	case "baseline":
		os.Exit(cmdBaseline(os.Args[2:]))
	case "list":
		var ids []string
		for id := range propDefs {
			ids = append(ids, id)
		}
		sort.Strings(ids)
		fmt.Println(strings.Join(ids, "\n"))
	default:
		fmt.Fprintln(os.Stderr, "unknown command", os.Args[1])
		os.Exit(2)
	}
}

func cmdCheck(args []string) int {
	fs := flag.NewFlagSet("check", flag.ExitOnError)
	tier := fs.String("tier", envOr("VERIF_TIER", "quick"), "quick|thorough")
	repo := fs.String("repo", "/repo", "repository root")
	verif := fs.String("verif", "/verif", "verif root")
	only := fs.String("only", "", "only units whose name contains this")
	dump := fs.String("dump", "", "directory to dump SMT scripts to")
	noEvidence := fs.Bool("no-evidence", false, "do not write the evidence file")
	replay := fs.String("replay", "", "re-run a replay file")
	var prop string
	if len(args) > 0 && !strings.HasPrefix(args[0], "-") {
		prop = args[0]
		args = args[1:]
	}
	fs.Parse(args)
	if *replay != "" {
		return cmdReplay(*replay, *repo)
	}
	pd := propDefs[prop]
	if pd == nil {
		fmt.Fprintf(os.Stderr, "unknown property %q\n", prop)
		return 2
	}
	var seed int64
	fmt.Sscan(envOr("VERIF_SEED", "0"), &seed)
	r := &Run{Prop: prop, Tier: *tier, Seed: seed, Repo: *repo, Verif: *verif, Extra: map[string]interface{}{}, Only: *only, Dump: *dump, t0: time.Now()}
	r.Tmo = 10
	if *tier == "thorough" {
		r.Tmo = 120
		r.Thorough = true
	}
	defer func() {
		if scratchDir != "" {
			os.RemoveAll(scratchDir)
		}
	}()
	code := r.run(pd)
	if !*noEvidence {
		if err := r.writeEvidence(pd, code); err != nil {
			fmt.Fprintln(os.Stderr, "evidence:", err)
			return 2
		}
	}
	return code
}

func envOr(k, d string) string {
	if v := os.Getenv(k); v != "" {
		return v
	}
	return d
}

func (r *Run) engineError(format string, a ...interface{}) {
	msg := fmt.Sprintf(format, a...)
	r.EngErrs = append(r.EngErrs, msg)
	fmt.Printf("ENGINE-ERROR: property=%s %s\n", r.Prop, msg)
}

func (r *Run) run(pd *PropDef) int {
	var err error
	dirs := []string{}
	for _, d := range []string{"interp", "stdlib", "extract", "cmd/yaegi"} {
		dirs = append(dirs, filepath.Join(r.Repo, d))
	}
	r.DB, err = LoadContracts(dirs)
	if err != nil {
		r.engineError("contracts: %v", err)
		return 2
	}
	if len(r.DB.Dups) > 0 {
		r.engineError("contracts: declared more than once (the later one would replace the earlier at call sites): %s", strings.Join(r.DB.Dups, ", "))
		return 2
	}
	t0 := time.Now()
	if len(pd.Patterns) > 0 {
		r.L, err = Load(r.Repo, pd.Patterns, "verif")
		if err != nil {
			r.engineError("load: %v", err)
			return 2
		}
		r.L.LoadSec = time.Since(t0).Seconds()
		// every spec file is loaded for every property: contracts of other properties are used modularly
		specDir := filepath.Join(r.Verif, "specs")
		if d := os.Getenv("GOVC_SPECS"); d != "" {
			specDir = d // development only: spec functions being drafted
		}
		if err := r.L.LoadSpecs(specDir, []string{"common", "build", "consts", "ops", "opsbv"}); err != nil {
			r.engineError("specs: %v", err)
			return 2
		}
		// function units under contract for this property
		for _, c := range r.DB.All {
			if !hasProp(c, r.Prop) || c.Trusted {
				continue
			}
			p := r.L.ByName[c.Pkg]
			if p == nil {
				r.engineError("contract %s.%s: package not loaded", c.Pkg, c.Key)
				continue
			}
			unit := c.Pkg + "." + c.Key
			if r.Only != "" && !strings.Contains(unit, r.Only) {
				continue
			}
			key := c.Key
			if c.LitGen != "" {
				key = c.LitGen
			}
			if c.FuncKey != "" {
				key = c.FuncKey
			}
			fd := r.L.FindFunc(p, key)
			if fd == nil || fd.Body == nil {
				r.engineError("contract target %s does not exist in the current tree", unit)
				continue
			}
			var results []*UnitResult
			if c.LitGen != "" {
				lits := selectLits(p, fd, c.LitSel)
				if len(lits) == 0 {
					r.engineError("contract target %s: no function literal matches %q in the current tree", unit, c.LitSel)
					continue
				}
				for i, l := range lits {
					suffix := ""
					if len(lits) > 1 {
						suffix = fmt.Sprintf("#%d", i+1)
					}
					results = append(results, VerifyUnit(r.L, r.DB, p, fd, l, suffix, c, r.Prop))
				}
			} else {
				results = append(results, VerifyFunc(r.L, r.DB, p, fd, c, r.Prop))
			}
			for _, res := range results {
				r.Units = append(r.Units, res)
				r.FuncsUC = append(r.FuncsUC, unit)
				if res.Err != "" {
					r.engineError("%s: %s", unit, res.Err)
				}
				for _, o := range res.Obls {
					if o.Prop == r.Prop {
						r.Obls = append(r.Obls, o)
					}
				}
				r.Assumes = append(r.Assumes, res.Assumes...)
			}
		}
	}
	if pd.Extra != nil {
		func() {
			defer func() {
				if e := recover(); e != nil {
					if ee, ok := e.(engineErr); ok {
						r.engineError("%s", ee.msg)
						return
					}
					panic(e)
				}
			}()
			pd.Extra(r)
		}()
	}
	r.knownSet = map[string]bool{}
	for _, k := range r.loadKnown() {
		if k.Property == r.Prop && k.Status != "fixed" {
			r.knownSet[k.Obligation] = true
		}
	}
	r.solveAll()
	return r.report(pd)
}

func hasProp(c *Contract, id string) bool {
	for _, p := range c.Props {
		if p == id {
			return true
		}
	}
	return false
}

func (r *Run) solveAll() {
	var todo []*Obligation
	for _, o := range r.Obls {
		if o.Backend == "" {
			if r.knownSet[o.Name] && !r.Thorough && r.Dump == "" && os.Getenv("GOVC_LIST_FAILING") == "" {
				// quick tier: a listed finding is reported, not re-solved (the thorough tier solves it and
				// re-runs its witness on the real code)
				o.Res = Result{Status: "skipped-known", Solver: "none"}
				o.Backend = "none"
				continue
			}
			todo = append(todo, o)
		}
	}
	if r.Dump != "" {
		os.MkdirAll(r.Dump, 0o755)
	}
	// 1. batches: the obligations of one proof unit share their declarations; they are checked one
	// by one under push/pop by a single z3 process. Whatever is not discharged there goes to step 2.
	groups := map[*Exec][]*Obligation{}
	var order []*Exec
	for _, o := range todo {
		if o.x == nil {
			continue
		}
		if _, ok := groups[o.x]; !ok {
			order = append(order, o.x)
		}
		groups[o.x] = append(groups[o.x], o)
	}
	sem := make(chan struct{}, 14)
	var wg sync.WaitGroup
	if !r.Thorough && r.Dump == "" {
		for _, x := range order {
			g := groups[x]
			if len(g) < 4 {
				continue
			}
			for start := 0; start < len(g); start += 16 {
				end := start + 16
				if end > len(g) {
					end = len(g)
				}
				chunk := g[start:end]
				wg.Add(1)
				sem <- struct{}{}
				go func() {
					defer wg.Done()
					defer func() { <-sem }()
					r.solveBatch(chunk)
				}()
			}
		}
		wg.Wait()
	}
	nb := 0
	for _, o := range todo {
		if o.Res.Status == "unsat" {
			nb++
		}
	}
	r.Extra["discharged_in_batches"] = nb
	r.Extra["raced_individually"] = len(todo) - nb
	r.Extra["batch_stage_secs"] = round3(time.Since(r.t0).Seconds())
	// 2. individually, racing the three solvers
	sem2 := make(chan struct{}, 6)
	for _, o := range todo {
		if o.Res.Status == "unsat" {
			continue
		}
		o := o
		wg.Add(1)
		sem2 <- struct{}{}
		go func() {
			defer wg.Done()
			defer func() { <-sem2 }()
			script := o.script(r.L.prelude)
			o.Size = len(script)
			if r.Dump != "" {
				os.WriteFile(filepath.Join(r.Dump, sanitize(o.Name)+".smt2"), []byte(script), 0o644)
			}
			if o.Size > 12000000 {
				// too large for one query: left undecided here, the path-by-path stage takes it
				o.Res = Result{Status: "oversize", Raw: "VC size cap exceeded"}
				return
			}
			tmo := r.Tmo
			if r.knownSet[o.Name] && !r.Thorough {
				tmo = 3 // a listed finding: its outcome only matters if it starts to discharge
			}
			if o.Cover || o.MustFail {
				// vacuity guards fail only on `unsat`, which is found quickly when it is there
				if r.Thorough {
					tmo = 20
				} else {
					tmo = 3
				}
			}
			o.Res = Solve(script, tmo, r.Thorough && !o.Cover && !o.MustFail)
			o.Backend = o.Res.Solver
		}()
	}
	wg.Wait()
	// 2b. path by path: an obligation over many paths that no solver decided as a whole is decided path by
	// path (it holds iff every path's VC is unsatisfiable; one satisfiable path refutes it)
	for _, o := range todo {
		if o.x == nil || o.Cover || o.MustFail || len(o.disjuncts) < 2 || r.knownSet[o.Name] && !r.Thorough {
			continue
		}
		if o.Res.Status == "unsat" || o.Res.Status == "sat" || o.Res.Status == "error" {
			continue
		}
		t1 := time.Now()
		type pr struct {
			i   int
			res Result
		}
		ch := make(chan pr, len(o.disjuncts))
		semp := make(chan struct{}, 8)
		for i, d := range o.disjuncts {
			i, d := i, d
			semp <- struct{}{}
			go func() {
				defer func() { <-semp }()
				ch <- pr{i, Solve(o.scriptOf(r.L.prelude, []string{d}), r.Tmo, false)}
			}()
		}
		all, anySat := true, false
		var satRes Result
		for range o.disjuncts {
			p := <-ch
			if p.res.Status == "sat" {
				anySat = true
				satRes = p.res
			}
			if p.res.Status != "unsat" {
				all = false
			}
		}
		switch {
		case anySat:
			o.Res = satRes
			o.Backend = satRes.Solver + " (path by path)"
		case all:
			o.Res = Result{Status: "unsat", Solver: "z3/cvc5 (path by path)", Secs: time.Since(t1).Seconds()}
			o.Backend = "path-by-path"
		}
	}
	// 3. an obligation that is on the baseline of discharged obligations and came back undecided
	// (timeout / unknown — not a refutation) is tried again on its own, with nothing else running and a
	// long timeout: a loaded machine must not turn a slow proof into an alarm.
	base := r.loadBaseline()
	nretry := 0
	for _, o := range todo {
		if o.Cover || o.MustFail || !base[o.Name] || r.knownSet[o.Name] {
			continue
		}
		if o.Res.Status == "unsat" || o.Res.Status == "sat" {
			continue
		}
		script := o.script(r.L.prelude)
		if len(script) > 8000000 {
			continue
		}
		nretry++
		res := Solve(script, 12*r.Tmo, true)
		if res.Status == "unsat" || res.Status == "sat" {
			o.Res = res
			o.Backend = res.Solver
		}
	}
	r.Extra["retried_alone"] = nretry
}

// solveBatch checks a chunk of obligations of one unit in a single z3 process under push/pop.
func (r *Run) solveBatch(chunk []*Obligation) {
	x := chunk[0].x
	var b strings.Builder
	b.WriteString(r.L.prelude)
	maxDecl := 0
	for _, o := range chunk {
		if o.decls > maxDecl {
			maxDecl = o.decls
		}
	}
	for _, d := range x.decls[:maxDecl] {
		b.WriteString(d)
		b.WriteByte('\n')
	}
	for i, o := range chunk {
		// each answer is bracketed by a marker so that an (error ...) can never shift the results
		b.WriteString(fmt.Sprintf("(echo \"#begin %d\")\n(push 1)\n(assert %s)\n(check-sat)\n(pop 1)\n(echo \"#end %d\")\n", i, or(o.disjuncts...), i))
	}
	script := b.String()
	if len(script) > 8000000 {
		return
	}
	fileSeq.Lock()
	fileSeq.n++
	fn := fmt.Sprintf("%s/batch%d.smt2", scratch(), fileSeq.n)
	fileSeq.Unlock()
	if os.WriteFile(fn, []byte(script), 0o644) != nil {
		return
	}
	defer os.Remove(fn)
	t0 := time.Now()
	ctx, cancel := context.WithTimeout(context.Background(), time.Duration(20+len(chunk))*time.Second)
	defer cancel()
	out, _ := exec.CommandContext(ctx, "z3-new", "-t:4000", fn).Output()
	secs := time.Since(t0).Seconds()
	noteSolver("z3-new", secs)
	lines := strings.Split(strings.TrimSpace(string(out)), "\n")
	cur := -1
	var got []string
	for _, ln := range lines {
		ln = strings.Trim(strings.TrimSpace(ln), "\"")
		switch {
		case strings.HasPrefix(ln, "#begin "):
			fmt.Sscanf(ln, "#begin %d", &cur)
			got = nil
		case strings.HasPrefix(ln, "#end "):
			var e int
			fmt.Sscanf(ln, "#end %d", &e)
			// discharged only if the bracket holds exactly one answer and it is unsat
			if e == cur && cur >= 0 && cur < len(chunk) && len(got) == 1 && got[0] == "unsat" {
				chunk[cur].Res = Result{Status: "unsat", Solver: "z3-new", Secs: secs / float64(len(chunk))}
				chunk[cur].Backend = "z3-new"
				chunk[cur].Size = len(chunk[cur].disjuncts[0])
			}
			cur = -1
		default:
			if cur >= 0 {
				got = append(got, ln)
			}
		}
	}
}

func (r *Run) loadKnown() []KnownFinding {
	var out []KnownFinding
	data, err := os.ReadFile(filepath.Join(r.Verif, "known_findings.jsonl"))
	if err != nil {
		return nil
	}
	for _, ln := range strings.Split(string(data), "\n") {
		ln = strings.TrimSpace(ln)
		if ln == "" || strings.HasPrefix(ln, "#") {
			continue
		}
		var k KnownFinding
		if json.Unmarshal([]byte(ln), &k) == nil {
			out = append(out, k)
		}
	}
	return out
}

type baselineFile struct {
	Discharged []string `json:"discharged"`
}

func (r *Run) loadBaseline() map[string]bool {
	m := map[string]bool{}
	data, err := os.ReadFile(filepath.Join(r.Verif, "baseline", r.Prop+".json"))
	if err != nil {
		return m
	}
	var b baselineFile
	json.Unmarshal(data, &b)
	for _, n := range b.Discharged {
		m[n] = true
	}
	return m
}

type outcome struct {
	discharged, refuted, undecided, known, canaryOK, coverOK int
	violations                                              []string
}

func (r *Run) report(pd *PropDef) int {
	known := map[string]KnownFinding{}
	for _, k := range r.loadKnown() {
		if k.Property == r.Prop && k.Status != "fixed" {
			known[k.Obligation] = k
		}
	}
	base := r.loadBaseline()
	code := 0
	confirmed := map[string]bool{}
	if r.Thorough && len(known) > 0 && r.L != nil && r.L.ByName["interp"] != nil {
		var names []string
		for n := range known {
			names = append(names, n)
		}
		sort.Strings(names)
		if out, ok := runScenarios(r.Repo, r.Verif, names); ok {
			for _, n := range names {
				if strings.Contains(out, "REPLAY-MISMATCH "+n) {
					confirmed[n] = true
				}
			}
		}
		r.Extra["known_findings_reconfirmed_on_real_code"] = len(confirmed)
	}
	seen := map[string]bool{}
	viol := 0
	canary := map[string]bool{}
	os.MkdirAll(filepath.Join(r.Verif, "replays"), 0o755)
	// thorough tier: every scenario registered for the property is run against the real code. A scenario
	// stands for the obligations its key matches; a mismatch is expected exactly when a listed finding is
	// among them. A mismatch that no listed finding explains is a failing input of the real code for a
	// behaviour the contracts claim (or do not reach): reported as a violation, the output is the replay.
	if r.Thorough && r.L != nil && r.L.ByName["interp"] != nil {
		if out, ok := runPropertyScenarios(r.Repo, r.Verif, r.Prop); ok {
			matches := func(key, name string) bool {
				if strings.HasSuffix(key, "*") {
					return strings.HasPrefix(name, strings.TrimSuffix(key, "*"))
				}
				return key == name
			}
			nOK, nExpected, nBad := 0, 0, 0
			for _, ln := range strings.Split(out, "\n") {
				switch {
				case strings.HasPrefix(ln, "SCENARIO-OK "):
					nOK++
				case strings.HasPrefix(ln, "SCENARIO-MISMATCH "):
					rest := strings.TrimPrefix(ln, "SCENARIO-MISMATCH ")
					key := rest
					if i := strings.Index(rest, " — "); i >= 0 {
						key = rest[:i]
					}
					excused := false
					for n := range known {
						if matches(key, n) {
							excused = true
						}
					}
					if excused {
						nExpected++
						continue
					}
					nBad++
					rf := &ReplayFile{Property: r.Prop, Obligation: "scenario:" + key, Clause: "the program registered for " + key + " behaves on the real code as compiled Go / the Go specification prescribes", Status: "mismatch", Solver: "scenario-replay", Output: trunc(ln, 3000), Confirmed: true, Pkg: "interp", Note: "thorough tier: fixed scenario of /verif/replays/helpers run against the real code; no listed finding explains the mismatch"}
					path := filepath.Join(r.Verif, "replays", sanitize(r.Prop+"_scenario_"+key)+".json")
					data, _ := json.MarshalIndent(rf, "", " ")
					os.WriteFile(path, append(data, '\n'), 0o644)
					fmt.Printf("VIOLATION property=%s replay=%s\n", r.Prop, path)
					viol++
					code = 1
				}
			}
			r.Extra["scenario_replays"] = map[string]int{"ok": nOK, "mismatch_explained_by_listed_findings": nExpected, "mismatch_unexplained": nBad}
			r.Bounded = append(r.Bounded, fmt.Sprintf("thorough tier: %d fixed scenario programs of the property were run against the real code (a bounded consistency test of the contracts' assumptions, not counted as proof)", nOK+nExpected+nBad))
		}
	}
	for _, o := range r.Obls {
		seen[o.Name] = true
		switch {
		case o.Cover:
			if o.Res.Status == "unsat" {
				r.engineError("vacuous: no feasible path in %s (preconditions contradictory)", o.Name)
			}
			continue
		case o.MustFail:
			parts := strings.Split(o.Name, "/")
			key := o.Unit + "/" + canaryLabel(o.Name)
			if len(parts) > 2 {
				key = parts[0] + "/" + parts[1] + "/" + canaryLabel(o.Name) // per function: a canary must be refuted on some path
			}
			if _, ok := canary[key]; !ok {
				canary[key] = false
			}
			if o.Res.Status != "unsat" {
				canary[key] = true
			}
			continue
		}
		if o.Res.Status == "unsat" {
			if k, ok := known[o.Name]; ok {
				fmt.Printf("NOTE: known finding %s now discharges (%s)\n", o.Name, k.What)
			}
			continue
		}
		if k, ok := known[o.Name]; ok {
			extra := ""
			if confirmed[o.Name] {
				extra = " [witness re-confirmed on the real code]"
			}
			fmt.Printf("KNOWN-FINDING: property=%s %s — %s (witness: %s)%s\n", r.Prop, o.Name, k.What, k.Witness, extra)
			continue
		}
		// not discharged and not known
		if os.Getenv("GOVC_LIST_FAILING") != "" {
			fmt.Printf("FAILING\t%s\t%s\t%s\n", o.Name, o.Res.Status, trunc(o.Res.Model, 200))
			continue
		}
		rp := r.replayObligation(o)
		switch {
		case rp.Confirmed:
			viol++
			fmt.Printf("VIOLATION property=%s replay=%s\n", r.Prop, rp.Path)
			code = 1
		case base[o.Name]:
			viol++
			fmt.Printf("VIOLATION property=%s replay=%s no-failing-input-found\n", r.Prop, rp.Path)
			code = 1
		default:
			fmt.Printf("UNDECIDED: property=%s %s (%s by %s) — never discharged on the baseline, not claimed\n", r.Prop, o.Name, o.Res.Status, o.Res.Solver)
		}
	}
	for k, refuted := range canary {
		if !refuted {
			r.engineError("canary verified in every case: %s — the engine cannot see a false postcondition", k)
		}
	}
	// obligations of the discharged baseline that no longer exist
	var missing []string
	for n := range base {
		if !seen[n] && !strings.Contains(n, "/safe:") {
			missing = append(missing, n)
		}
	}
	sort.Strings(missing)
	if len(missing) > 0 && r.Only == "" {
		// an obligation that was discharged on the recorded tree and cannot even be generated on this one
		// (the function, literal, case clause or loop it was stated for is gone or no longer fits its
		// contract) is an obligation that no longer holds: reported as a violation without a failing input,
		// the replay file carries the engine's reason.  (Re-recording the baseline after a reviewed
		// refactoring is `govc baseline`.)
		reason := strings.Join(r.EngErrs, "; ")
		if reason == "" {
			reason = "the unit no longer produces this obligation"
		}
		shown := 0
		for _, m := range missing {
			if shown >= 3 {
				break
			}
			shown++
			rf := &ReplayFile{Property: r.Prop, Obligation: m, Status: "not-generated", Solver: "govc", SolverOut: trunc(reason, 1500), Note: fmt.Sprintf("discharged on the recorded tree, not generated on this one (%d such obligations): the code no longer has the shape the contract was verified for", len(missing))}
			path := filepath.Join(r.Verif, "replays", sanitize(m)+".json")
			data, _ := json.MarshalIndent(rf, "", " ")
			os.WriteFile(path, append(data, '\n'), 0o644)
			fmt.Printf("VIOLATION property=%s replay=%s no-failing-input-found\n", r.Prop, path)
			viol++
		}
		code = 1
		r.Extra["baseline_obligations_not_generated"] = len(missing)
	}
	r.Extra["violations"] = viol
	if code == 0 && len(r.EngErrs) > 0 {
		return 2
	}
	return code
}

func canaryLabel(name string) string {
	i := strings.Index(name, "/canary:")
	if i < 0 {
		return name
	}
	l := name[i+1:]
	if j := strings.Index(l, "["); j > 0 {
		l = l[:j]
	}
	return l
}

// cmdBaseline runs a check and records the discharged obligation names as the baseline.
func cmdBaseline(args []string) int {
	prop := args[0]
	pd := propDefs[prop]
	if pd == nil {
		return 2
	}
	r := &Run{Prop: prop, Tier: "quick", Repo: "/repo", Verif: "/verif", Extra: map[string]interface{}{}, t0: time.Now(), Tmo: 10}
	code := r.run(pd)
	if scratchDir != "" {
		os.RemoveAll(scratchDir)
	}
	// never drop an obligation from the baseline silently: re-recording is a reviewed act
	prev := r.loadBaseline()
	now := map[string]bool{}
	for _, n := range r.dischargedNames() {
		now[n] = true
	}
	dropped := 0
	for n := range prev {
		if !now[n] {
			fmt.Printf("DROPPED from baseline %s: %s\n", prop, n)
			dropped++
		}
	}
	if dropped > 0 && os.Getenv("GOVC_BASELINE_FORCE") == "" {
		fmt.Printf("baseline %s NOT written: %d previously discharged obligations are not discharged now (set GOVC_BASELINE_FORCE=1 after reviewing)\n", prop, dropped)
		return 3
	}
	data, _ := json.MarshalIndent(baselineFile{Discharged: r.dischargedNames()}, "", " ")
	os.MkdirAll(filepath.Join(r.Verif, "baseline"), 0o755)
	os.WriteFile(filepath.Join(r.Verif, "baseline", prop+".json"), append(data, '\n'), 0o644)
	fmt.Printf("baseline %s: %d discharged obligations recorded (check exit %d)\n", prop, len(r.dischargedNames()), code)
	return 0
}

// selectLits picks function literals of fd by selector:
//   calls:<name>   outermost literals whose own body (nested literals excluded) calls <name>
//   exec#<k>       k-th literal assigned to a selector named exec (n.exec = func...)
//   makefunc#<k>   k-th literal passed to reflect.MakeFunc
func selectLits(p *packages.Package, fd *ast.FuncDecl, sel string) []*ast.FuncLit {
	var out []*ast.FuncLit
	switch {
	case strings.HasPrefix(sel, "calls:"):
		// calls:<f>[#k]: the outermost function literals that call f directly (the k-th of them, in source order)
		want := strings.TrimPrefix(sel, "calls:")
		callsK, callsN := 0, 0
		if i := strings.Index(want, "#"); i >= 0 {
			fmt.Sscanf(want[i+1:], "%d", &callsK)
			want = want[:i]
		}
		var visit func(n ast.Node, top bool)
		directCalls := func(l *ast.FuncLit) bool {
			found := false
			ast.Inspect(l.Body, func(n ast.Node) bool {
				if _, ok := n.(*ast.FuncLit); ok {
					return false
				}
				if c, ok := n.(*ast.CallExpr); ok {
					switch f := c.Fun.(type) {
					case *ast.Ident:
						if f.Name == want {
							found = true
						}
					case *ast.SelectorExpr:
						if f.Sel.Name == want || types.ExprString(f) == want {
							found = true
						}
					}
				}
				return true
			})
			return found
		}
		visit = func(n ast.Node, top bool) {
			ast.Inspect(n, func(m ast.Node) bool {
				if l, ok := m.(*ast.FuncLit); ok {
					if directCalls(l) {
						callsN++
						if callsK == 0 || callsN == callsK {
							out = append(out, l)
						}
						return false
					}
				}
				return true
			})
		}
		visit(fd.Body, true)
	case strings.HasPrefix(sel, "mentions:"):
		// outermost run-time literals assigned to n.exec whose body mentions the identifier
		want := strings.TrimPrefix(sel, "mentions:")
		ast.Inspect(fd.Body, func(m ast.Node) bool {
			as, ok := m.(*ast.AssignStmt)
			if !ok || len(as.Lhs) != 1 || len(as.Rhs) != 1 {
				return true
			}
			se, ok := as.Lhs[0].(*ast.SelectorExpr)
			l, ok2 := as.Rhs[0].(*ast.FuncLit)
			if !ok || !ok2 || se.Sel.Name != "exec" {
				return true
			}
			found := false
			ast.Inspect(l.Body, func(k ast.Node) bool {
				if id, ok := k.(*ast.Ident); ok && id.Name == want {
					found = true
				}
				return !found
			})
			if found {
				out = append(out, l)
			}
			return true
		})
	case strings.HasPrefix(sel, "var:"):
		// name := func(...) {...}
		want := strings.TrimPrefix(sel, "var:")
		ast.Inspect(fd.Body, func(m ast.Node) bool {
			if as, ok := m.(*ast.AssignStmt); ok && len(as.Lhs) == 1 && len(as.Rhs) == 1 {
				if id, ok := as.Lhs[0].(*ast.Ident); ok && id.Name == want {
					if l, ok := as.Rhs[0].(*ast.FuncLit); ok {
						out = append(out, l)
					}
				}
			}
			return true
		})
	case strings.HasPrefix(sel, "key:"):
		// X["K"] = reflect.ValueOf(func(...) {...})
		want := strings.TrimPrefix(sel, "key:")
		ast.Inspect(fd.Body, func(m ast.Node) bool {
			if as, ok := m.(*ast.AssignStmt); ok && len(as.Lhs) == 1 && len(as.Rhs) == 1 {
				if ix, ok := as.Lhs[0].(*ast.IndexExpr); ok {
					if bl, ok := ix.Index.(*ast.BasicLit); ok && bl.Value == strconv.Quote(want) {
						if c, ok := as.Rhs[0].(*ast.CallExpr); ok && len(c.Args) == 1 {
							if l, ok := c.Args[0].(*ast.FuncLit); ok {
								out = append(out, l)
							}
						}
					}
				}
			}
			return true
		})
	case strings.HasPrefix(sel, "case:"):
		// case:<ident>[#k]: the body of the (k-th, in source order) case clause listing the identifier,
		// verified as a block in which every variable of the enclosing function is arbitrary
		want := strings.TrimPrefix(sel, "case:")
		k := 0
		if i := strings.Index(want, "#"); i >= 0 {
			fmt.Sscanf(want[i+1:], "%d", &k)
			want = want[:i]
		}
		n := 0
		ast.Inspect(fd.Body, func(m ast.Node) bool {
			sw, ok := m.(*ast.SwitchStmt)
			if !ok {
				return true
			}
			for ci, cl := range sw.Body.List {
				cc := cl.(*ast.CaseClause)
				for _, e := range cc.List {
					if id, ok := e.(*ast.Ident); ok && id.Name == want {
						n++
						if k == 0 || n == k {
							// the clause body, followed by the bodies it falls through to
							var body []ast.Stmt
							end := cc.End()
							for j := ci; j < len(sw.Body.List); j++ {
								b := sw.Body.List[j].(*ast.CaseClause).Body
								end = sw.Body.List[j].End()
								if len(b) > 0 {
									if br, ok := b[len(b)-1].(*ast.BranchStmt); ok && br.Tok == token.FALLTHROUGH {
										body = append(body, b[:len(b)-1]...)
										continue
									}
								}
								body = append(body, b...)
								break
							}
							out = append(out, &ast.FuncLit{
								Type: &ast.FuncType{Func: cc.Colon, Params: &ast.FieldList{}},
								Body: &ast.BlockStmt{Lbrace: cc.Colon, List: body, Rbrace: end},
							})
						}
					}
				}
			}
			return true
		})
	case strings.HasPrefix(sel, "if:"):
		// if:<ident>[#k]: the (k-th, in source order) if statement whose init or condition mentions the
		// identifier, verified as a block in which every variable of the enclosing function is arbitrary
		want := strings.TrimPrefix(sel, "if:")
		k := 0
		if i := strings.Index(want, "#"); i >= 0 {
			fmt.Sscanf(want[i+1:], "%d", &k)
			want = want[:i]
		}
		n := 0
		ast.Inspect(fd.Body, func(m ast.Node) bool {
			is, ok := m.(*ast.IfStmt)
			if !ok {
				return true
			}
			found := false
			look := func(x ast.Node) {
				if x == nil {
					return
				}
				ast.Inspect(x, func(y ast.Node) bool {
					if id, ok := y.(*ast.Ident); ok && id.Name == want {
						found = true
					}
					if bl, ok := y.(*ast.BasicLit); ok && bl.Value == want {
						found = true // a literal, written with its quotes: if:"init"
					}
					return !found
				})
			}
			if is.Init != nil {
				look(is.Init)
			}
			look(is.Cond)
			if found {
				n++
				if k == 0 || n == k {
					out = append(out, &ast.FuncLit{
						Type: &ast.FuncType{Func: is.Pos(), Params: &ast.FieldList{}},
						Body: &ast.BlockStmt{Lbrace: is.Pos() - 1, List: []ast.Stmt{is}, Rbrace: is.End()},
					})
				}
			}
			return true
		})
	case strings.HasPrefix(sel, "for:"):
		// for:<ident>[#k]: the body of the (k-th, in source order) for / range statement whose header
		// (init, condition, post, range expression, key, value) mentions the identifier, verified as a block
		// in which every variable of the enclosing function is arbitrary: one arbitrary iteration
		want := strings.TrimPrefix(sel, "for:")
		k := 0
		if i := strings.Index(want, "#"); i >= 0 {
			fmt.Sscanf(want[i+1:], "%d", &k)
			want = want[:i]
		}
		n := 0
		mentions := func(xs ...ast.Node) bool {
			found := false
			for _, x := range xs {
				if x == nil || reflect.ValueOf(x).IsNil() {
					continue
				}
				ast.Inspect(x, func(y ast.Node) bool {
					if id, ok := y.(*ast.Ident); ok && id.Name == want {
						found = true
					}
					return !found
				})
			}
			return found
		}
		ast.Inspect(fd.Body, func(m ast.Node) bool {
			var body *ast.BlockStmt
			hit := false
			switch l := m.(type) {
			case *ast.ForStmt:
				body = l.Body
				hit = mentions(l.Init, l.Cond, l.Post)
			case *ast.RangeStmt:
				body = l.Body
				hit = mentions(l.Key, l.Value, l.X)
			}
			if body != nil && hit {
				n++
				if k == 0 || n == k {
					out = append(out, &ast.FuncLit{
						Type: &ast.FuncType{Func: body.Lbrace, Params: &ast.FieldList{}},
						Body: &ast.BlockStmt{Lbrace: body.Lbrace, List: body.List, Rbrace: body.Rbrace},
					})
				}
			}
			return true
		})
	case strings.HasPrefix(sel, "exec#"), strings.HasPrefix(sel, "makefunc#"):
		var k int
		kind := sel[:strings.Index(sel, "#")]
		fmt.Sscanf(sel[strings.Index(sel, "#")+1:], "%d", &k)
		n := 0
		ast.Inspect(fd.Body, func(m ast.Node) bool {
			switch m := m.(type) {
			case *ast.AssignStmt:
				if kind == "exec" && len(m.Lhs) == 1 && len(m.Rhs) == 1 {
					if se, ok := m.Lhs[0].(*ast.SelectorExpr); ok && se.Sel.Name == "exec" {
						if l, ok := m.Rhs[0].(*ast.FuncLit); ok {
							n++
							if n == k {
								out = append(out, l)
							}
						}
					}
				}
			case *ast.CallExpr:
				if kind == "makefunc" && types.ExprString(m.Fun) == "reflect.MakeFunc" && len(m.Args) == 2 {
					if l, ok := m.Args[1].(*ast.FuncLit); ok {
						n++
						if n == k {
							out = append(out, l)
						}
					}
				}
			}
			return true
		})
	}
	return out
}
