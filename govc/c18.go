package main

import (
	"bytes"
	"fmt"
	"os"
	"go/ast"
	"go/printer"
	"go/types"
	"strings"
)

// extractShape: ground obligations on the classification switch of genContent.
func (r *Run) extractShape() {
	p := r.L.ByName["extract"]
	fd := r.L.FindFunc(p, "Extractor.genContent")
	if fd == nil {
		r.engineError("Extractor.genContent does not exist in the current tree")
		return
	}
	var sw *ast.TypeSwitchStmt
	ast.Inspect(fd.Body, func(n ast.Node) bool {
		if s, ok := n.(*ast.TypeSwitchStmt); ok && sw == nil {
			if as, ok := s.Assign.(*ast.AssignStmt); ok {
				if ta, ok := as.Rhs[0].(*ast.TypeAssertExpr); ok && types.ExprString(ta.X) == "o" {
					sw = s
				}
			}
		}
		return true
	})
	if sw == nil {
		r.engineError("genContent: classification switch not found")
		return
	}
	// per clause: the stores it makes
	stores := map[string][]string{}
	skipsGeneric := map[string]bool{}
	for _, cl := range sw.Body.List {
		cc := cl.(*ast.CaseClause)
		if len(cc.List) != 1 {
			continue
		}
		k := types.ExprString(cc.List[0])
		ast.Inspect(cc, func(n ast.Node) bool {
			switch n := n.(type) {
			case *ast.AssignStmt:
				if len(n.Lhs) == 1 {
					if ix, ok := n.Lhs[0].(*ast.IndexExpr); ok && types.ExprString(ix.Index) == "name" {
						var b bytes.Buffer
						printer.Fprint(&b, r.L.Fset, n.Rhs[0])
						stores[k] = append(stores[k], types.ExprString(ix.X)+"[name] = "+b.String())
					}
				}
			case *ast.IfStmt:
				if strings.Contains(types.ExprString(n.Cond), "TypeParams().Len() > 0") {
					if len(n.Body.List) == 1 {
						if b, ok := n.Body.List[0].(*ast.BranchStmt); ok && b.Tok.String() == "continue" {
							skipsGeneric[k] = true
						}
					}
				}
			}
			return true
		})
	}
	chk := func(name, want string, ok bool, got string) {
		r.ground("extract.genContent/classify["+name+"]", want, ok, got)
	}
	has := func(k, s string) bool {
		for _, x := range stores[k] {
			if x == s {
				return true
			}
		}
		return false
	}
	chk("const", "untyped constants are bound through fixConst, typed ones by qualified name, both by value", has("*types.Const", "val[name] = Val{fixConst(pname, o.Val(), imports), false}") && has("*types.Const", "val[name] = Val{pname, false}") && len(stores["*types.Const"]) == 2, strings.Join(stores["*types.Const"], "; "))
	// the guard of the fixConst store: EVERY untyped constant (int, rune, float, complex, string, bool) takes
	// that path — the test is the IsUntyped bit of the basic type, not a list of kinds
	var guards []string
	for _, cl := range sw.Body.List {
		cc := cl.(*ast.CaseClause)
		if len(cc.List) != 1 || types.ExprString(cc.List[0]) != "*types.Const" {
			continue
		}
		var walk func(n ast.Node, conds []string)
		walk = func(n ast.Node, conds []string) {
			ast.Inspect(n, func(m ast.Node) bool {
				if m == nil || m == n {
					return true
				}
				switch m := m.(type) {
				case *ast.IfStmt:
					walk(m.Body, append(append([]string{}, conds...), "if "+types.ExprString(m.Cond)))
					if m.Else != nil {
						walk(m.Else, append(append([]string{}, conds...), "else of "+types.ExprString(m.Cond)))
					}
					return false
				case *ast.CaseClause:
					var ls []string
					for _, e := range m.List {
						ls = append(ls, types.ExprString(e))
					}
					walk(&ast.BlockStmt{List: m.Body}, append(append([]string{}, conds...), "case "+strings.Join(ls, ", ")))
					return false
				case *ast.AssignStmt:
					var rb bytes.Buffer
					if len(m.Rhs) == 1 {
						printer.Fprint(&rb, r.L.Fset, m.Rhs[0])
					}
					if strings.Contains(rb.String(), "fixConst(") {
						guards = append(guards, strings.Join(conds, " / "))
					}
				}
				return true
			})
		}
		walk(&ast.BlockStmt{List: cc.Body}, nil)
	}
	if os.Getenv("GOVC_DEBUG") != "" {
		fmt.Fprintf(os.Stderr, "guards=%q\n", guards)
	}
	okGuard := len(guards) == 1 && !strings.Contains(guards[0], " / ") && strings.HasPrefix(guards[0], "if ") && strings.Contains(strings.ReplaceAll(guards[0], " ", ""), "b.Info()&types.IsUntyped)!=0") && !strings.Contains(guards[0], "Kind()")
	chk("const/untyped-test", "the fixConst path is taken exactly when the constant's basic type has the IsUntyped bit", okGuard, strings.Join(guards, "; "))
	chk("func", "functions are bound by value under their own name; generic functions are skipped", has("*types.Func", "val[name] = Val{pname, false}") && len(stores["*types.Func"]) == 1 && skipsGeneric["*types.Func"], strings.Join(stores["*types.Func"], "; "))
	chk("var", "variables are bound by address under their own name", has("*types.Var", "val[name] = Val{pname, true}") && len(stores["*types.Var"]) == 1, strings.Join(stores["*types.Var"], "; "))
	chk("type", "types are bound as types under their own name; generic types are skipped; interfaces get a wrapper", has("*types.TypeName", "typ[name] = pname") && has("*types.TypeName", "wrap[name] = Wrap{prefix + name, methods}") && skipsGeneric["*types.TypeName"], strings.Join(stores["*types.TypeName"], "; "))
	r.FuncsUC = append(r.FuncsUC, "extract.Extractor.genContent (classification switch)")
}
