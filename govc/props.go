package main

func init() {
	register(&PropDef{
		ID: "C17", Patterns: []string{"./interp"}, Specs: []string{"build"},
		Covered: []string{"contains", "buildTagOk", "buildOptionOk", "buildLineOk", "skipFile", "goMinorVersion", "knownOs/knownArch tables", "buildOk: constraints evaluated in the given context, a rejected file adds no yaegi:tags", "where selection is applied: parse consults buildOk before the Go parser and before adding tags; importSrc reads and parses only files skipFile kept", "setYaegiTags visits and sets every tag of a yaegi:tags line", "buildOk examines every comment group of the header and every line of each, with the context it was given"},
		Uncov:   []string{"go/parser's comment groups (opaque)"},
		Extra: func(r *Run) {
			r.tableSuperset("interp", "knownOs", "knownOSspec")
			r.tableSuperset("interp", "knownArch", "knownArchSpec")
		},
		Trusted: []string{"T1 go toolchain, go/types, solvers", "T2 govc VC generator", "T5 library contracts: strings.Split/HasPrefix/HasSuffix/TrimSuffix/Index, strconv.Atoi, path.Base", "T6 spec functions in /verif/specs/build.smt2 transcribe go/build"},
	})
}

func init() {
	register(&PropDef{
		ID: "C08", Patterns: []string{"./interp"},
		Extra: func(r *Run) {
			r.frameCondition("interp")
			r.deferShape()
		},
		Covered: []string{"frame condition on every run-time closure: generation-time (captured) state is read-only", "one fresh frame per call of a script function (call, getFunc, genFunctionWrapper)", "frame locks of runCfg's deferred function (shared with C06)", "every slot of a call frame is allocated by the call (getFunc, genFunctionWrapper, locals of call)", "arguments of `go hostFunc(...)` are copied at the go statement", "a value received after waiting (cancellable receive) goes to the destination of the receive, `l` frames up", "a deferred or goroutine-started pointer-receiver method designates the variable"},
		Uncov:   []string{"schedules and output equality under interleavings", "races the script itself causes inside frame data", "aliasing through locals (c := captured; c[i] = ...) is not tracked"},
		Trusted: []string{"T1 go toolchain, go/types", "T2 govc frame checker"},
	})
}

func init() {
	register(&PropDef{
		ID: "C14", Patterns: []string{"./stdlib", "./stdlib/unsafe", "./stdlib/syscall", "./stdlib/unrestricted"},
		Extra: func(r *Run) {
			st := r.checkBindings([]string{"stdlib", "unsafe", "syscall", "unrestricted"}, true)
			// files the installed toolchain does not select: other release, other platforms
			r.syntacticBindings([]string{"stdlib/go1_21_*.go", "stdlib/syscall/go1_2*_syscall_*.go", "stdlib/unrestricted/go1_2*_*.go", "stdlib/unsafe/go1_21_*.go"}, st)
			if r.Thorough {
				r.bindingsAllPlatforms(st)
			}
			r.Extra["tables"] = st.tables
			r.Extra["ground_entries_checked"] = st.entries
			r.Extra["entries_by_form"] = map[string]int{"func_or_typed_const": st.funcs, "var_by_address": st.vars, "type": st.types_, "const_literal": st.consts, "wrapper": st.wrappers}
			r.Extra["wrapper_methods_checked"] = st.wrapperMethods
			r.Extra["completeness_objects_checked"] = st.complete
			r.Extra["entries_checked_syntactically_only"] = st.syntactic
			r.FuncsUC = append(r.FuncsUC, "every generated init of stdlib, stdlib/unsafe, stdlib/syscall, stdlib/unrestricted", "every generated wrapper method")
		},
		Covered: []string{"binding identity of every entry (typed for the host platform and release)", "exact value of re-materialised constants", "by-address binding of variables", "completeness vs. the package scope", "wrapper struct/method forwarding"},
		Uncov:   []string{"go1.21 files and non-host syscall platform files are checked syntactically only (key/qualifier/selector agreement) in the quick tier", "stdlib/wrapper-composed.go and maptypes.go (hand written)"},
		Trusted: []string{"T1 go toolchain, go/types, go/constant", "T2 govc ground evaluator", "restricted replacements are taken from the documented list (extract.go `restricted`)"},
	})
}

func init() {
	trusted := []string{"T1 go toolchain, go/types, solvers", "T2 govc VC generator", "A3 sequential semantics for sync/atomic and mutexes", "opaque callees (runCfg, gen*) preserve frame.id/Interpreter.id: justified by the id-writers obligation"}
	register(&PropDef{
		ID: "C09", Patterns: []string{"./interp"},
		Extra:   func(r *Run) { r.idWriters(); r.blockingOps(); r.contextWatchers() },
		Covered: []string{"newFrame/clone/stop contracts", "id inheritance at every newFrame call site", "run-id gate before every exec closure application in both runCfg loops", "writers of frame.id / Interpreter.id enumerated", "recv/recv2/send/rangeChan: the blocking reflect.Select races f.done at index 0 and the closure returns nil when it is chosen", "_select: the per-execution case vector ends with the frame's done case, the operand loop leaves it alone, the closure stops when it is chosen", "EvalWithContext / EvalPathWithContext / ExecuteWithContext switch to cancellable channel operations"},
		Uncov:   []string{"promptness (time) and goroutine exit", "interleavings of stop with a running frame"},
		Trusted: trusted,
	})
	register(&PropDef{
		ID: "C10", Patterns: []string{"./interp"},
		Extra:   func(r *Run) { r.idWriters() },
		Covered: []string{"Execute refreshes the root frame id before any run", "resizeFrame leaves ids untouched", "entry obligation of host-callable wrappers (expected findings)", "run-id gate of runCfg in both loops (frame currentness demanded from callers only)", "Interpreter.run: the frame listens to the done channel of the current run", "stop leaves an open done channel for later evaluations", "a cancelled receive leaves its destination alone", "Symbols binds wrappers to the root frame", "a cancelled frame still issues all its deferred calls"},
		Uncov:   []string{"whole histories of evaluations; symbol tables after a cancelled compile phase"},
		Trusted: trusted,
	})
}

func init() {
	register(&PropDef{
		ID: "C13", Patterns: []string{"./interp", "./stdlib"},
		Extra: func(r *Run) {
			r.restrictedTables()
			r.fixStdlibShape()
			r.flagGating()
		},
		Covered: []string{"default table lacks unsafe/syscall/os/exec", "exit entry points bound to the restricted replacements, which never return normally and call no exiting function", "no unwrapped *log.Logger is handed out (function results and variables)", "Getenv/LookupEnv/Setenv/Unsetenv/Clearenv implement the map model over interp.env", "Environ lists exactly the map; ExpandEnv expands through the map's Getenv, never the host's", "New: Options.Env parsed at the first '=', streams and arguments taken from the options, only YAEGI_* host variables read", "print builtins write to the interpreter's stdout only", "cmd/yaegi: each of the syscall / unsafe / unrestricted switches is wired to its own environment variable, flag (default: its own environment value) and Use guard", "shape of the stream/argument redirection closures of fixStdlib", "Use keeps a table of its own per package: the caller's map is never adopted, a new package gets a map the interpreter allocated, other packages' tables are kept"},
		Uncov:   []string{"loggers reachable through struct fields (http.Server.ErrorLog) or interfaces"},
		Trusted: []string{"T1 go toolchain, go/types, solvers", "T2 govc", "T5 log.Panic* panic without exiting; fmt.Fprint* write only to their writer"},
	})
}

func init() {
	register(&PropDef{
		ID: "C06", Patterns: []string{"./interp", "./stdlib"},
		Extra: func(r *Run) {
			r.deferShape()
		},
		Covered: []string{"runCfg's deferred function runs every deferred entry once, in order (on normal exit; the exceptional exit is a known finding)", "recover reads/clears only the caller frame", "defer producers push-front a fresh record", "defer arguments are copies (syntactic obligation; known finding)", "Execute/EvalWithContext convert every panic into interp.Panic carrying the original value", "restricted exit functions never return normally", "`defer panic(v)` must wait for the function exit (known finding)", "frame locks: released on every explicit exit of runCfg's deferred function; not held across deferred calls (known finding)", "a deferred pointer-receiver method acts on the variable, a value receiver is copied at the defer statement (shared with C07/C08)"},
		Uncov:   []string{"which run-time faults reflect raises", "panic position in the output", "callBin's defer branch beyond the argument copy"},
		Trusted: []string{"T1 go toolchain, solvers", "T2 govc", "reflect.Value.Call applies its receiver once and may panic", "T5 log.Panic* panic"},
	})
}

func init() {
	register(&PropDef{
		ID: "C02", Patterns: []string{"./interp"}, Specs: []string{"ops", "opsbv"},
		Extra: func(r *Run) { r.dispatchTables() },
		Covered: []string{"operand extractors of value.go", "operator generators of op.go: every run-time closure against the Go-spec value per kind", "cfg binary/unary expression cases: an operator node stored into an interface destination has a concrete type its generator can compute in", "dispatch tables, entry by entry: operator token -> action (ast.go, per context), action -> generator (builtin), action -> constant folder (constOp, constBltn)", "neg: float and complex classes are the sign flip (fneg/cneg, not 0 - x)"},
		Uncov:   []string{"into which slot cfg.go lets a generator write in general (A2)", "float32 double rounding (T7)"},
		Trusted: []string{"T1 go toolchain, solvers", "T2 govc", "T3 reflect.Value model (Set* truncate to kind, Int/Uint read the content, Convert is Go conversion)", "A1 typing precondition", "A2 genValue/genValueOutput denote operand/destination", "T7 float32 double rounding"},
	})
}

func init() {
	register(&PropDef{
		ID: "C03", Patterns: []string{"./interp"}, Specs: []string{"ops", "consts"},
		Extra: func(r *Run) { r.dispatchTables() },
		Covered: []string{"representableConst for every integer kind and every integer constant", "constant folders: untyped operands fold to go/constant's operation with the spec token (QUO_ASSIGN exactly for untyped integer results); typed operands compute the kind's operation (every branch: int, float, complex, string; bitwise and shift folders in bit-vector variants)", "typed constant overflow must be rejected (known finding)", "representableConst for float, complex, string and bool kinds", "convertConst / convertConstantValue / genValueAs: single rounding per target kind, no refusal of representable constants", "representable / convertUntyped imply representableConst; return statement, comparison operand and send statement (finding) demand representability", "constant builtins len/complex/real/imag", "default type of untyped constants (by value kind, else by category)", "comparison of two untyped constants is folded with go/constant.Compare", "assignment and index rules of typecheck.go (shared with C12)", "comparison folding: compareConst against go/constant.Compare with the token of constCmp, whose cells are decided entry by entry", "real/imag of constants read their operand with vComplex", "&& and || of two boolean constants give the node its value", "constOperand / compareConst: typed integer, string and bool constants are compared by value under the operator token; variables of binary packages are not constants", "the result type of a comparison is never pushed into its operand expressions (pre-order unit, call guard on fixUntyped, isBoolAction)"},
		Uncov:   []string{"rounding inside go/constant (its functions are uninterpreted)", "iota bookkeeping and implicit repetition (ast/gta/cfg walks)", "literal parsing", "the remaining places where cfg gives a constant a type (composite literal elements, map keys, call arguments: they go through check.assignment, which is under contract, but the call sites are not)"},
		Trusted: []string{"T1 go toolchain, solvers", "T2 govc", "T4 go/constant computes exact constant arithmetic (BinaryOp/UnaryOp/Shift/ToInt uninterpreted functions of the token; BitLen(x) <= k iff |x| < 2^k)", "T3 reflect.Value model"},
	})
}

func init() {
	register(&PropDef{
		ID: "C19", Patterns: []string{"./interp"},
		Extra: func(r *Run) { r.debuggerFrame(); r.sessionLifecycle() },
		Covered: []string{"both loops of runCfg apply exec closures only behind the run-id gate (shared with C09)", "Debugger.exec/enterCall/exitCall assign only debugger state (f.debug, goroutine records, dbg.*)", "setBreakOnLine/setBreakOnCall set exactly their own flag; the visitor of SetBreakpoints keeps function breakpoints in the line pass and vice versa, and a request without breakpoints of one kind leaves those of that kind alone", "Debugger.exec: per-node stop decision against a ghost trace of the event callback (breakpoints always reported, step filters)", "node tracking of the debugger loop (known finding: code-pointer comparison; tie-break pinned)", "originalExecNode: the last matching node in walk order", "Step/Continue/Interrupt/setMode: requests reach the goroutine they name, mode and depth as requested", "getGoRoutine (verified lookup), Terminate (every live routine told, table emptied)", "session goroutine: terminate event deferred first, execution after the resume request", "the breakpoint walk visits the whole tree (never prunes below a node that received a breakpoint) and resets stale line breakpoints"},
		Uncov:   []string{"order of events across nodes and goroutines", "that no event follows the terminate event at run time (only its registration order is checked)"},
		Trusted: []string{"T1 go toolchain, solvers", "T2 govc", "A3 sequential semantics"},
	})
}

func init() {
	register(&PropDef{
		ID: "C12", Patterns: []string{"./interp"},
		Extra:   func(r *Run) { r.compilePhaseEffects(); r.opTables() },
		Covered: []string{"eval reaches Execute only after compileSrc returned no error", "compile-phase functions reach no execution function in the static call graph (importSrc reported separately)", "exec closures are applied only at run time", "assignableTo: identical types accepted, distinct defined types rejected", "comparison: comparable / ordered / nil rules", "convertibleTo: exactly the admitted conversions", "op / shift / conversion / assignment / index / typeAssertionExpr / sliceExpr rules", "operator admissibility tables (ground)", "binaryExpr: operands of arithmetic have identical types", "unaryExpr / starExpr / addressExpr / arrayLitExpr / mapLitExpr / structLitExpr / argument / arguments rules", "call sites in cfg.go: every rule is consulted with the node the specification names and its error is the node's error (composite literals, assignments, address, inc/dec, slice, dereference, type assertion, index, call/builtin/conversion, binary, unary); instantiation errors are reported", "builtin rule (counts, spread, operand kinds), host struct literals, boolean conditions of for/if, undefined identifiers, result counts and assignability of return, send statements (direction, assignability)", "representableConst (shared with C03)", "builtin rule: copy needs a slice destination and a slice or string source"},
		Uncov:   []string{"selector expressions (fields, methods), range clauses, labels", "implements against the Go spec", "name resolution errors in cfg.go/gta.go", "calls through function values and interfaces in the call graph"},
		Trusted: []string{"T1 go toolchain, solvers", "T2 govc", "itype.equals/underlying/id are pure functions of their receiver"},
	})
}

func init() {
	register(&PropDef{
		ID: "C15", Patterns: []string{"./interp"},
		Extra:   func(r *Run) { r.phaseOrder(); r.mainLast(); r.depsThroughFunctions() },
		Covered: []string{"getVarDependencies records every reference to another package-level variable in the initialiser (all positions except selector field names)", "genGlobalVarDecl: canInit is 'all dependencies already emitted'", "phase order root -> variables -> inits -> main in Execute and importSrc", "importSrc evaluates a package at most once", "only dependencies of the same batch block a declaration", "exactly the receiver-less functions named init are collected, appended in walk order", "main is put on the run list once, outside every loop, after every append of init functions (importSrc, CompileAST)", "the symbol of an uninitialised package variable designates its declaration node (what the ordering works on)", "genGlobalVarDecl examines every dependency of a variable before emitting it", "main is scheduled only by the piece that declares it (shared with C11)"},
		Uncov:   []string{"dependencies through the bodies of functions and methods (known finding)", "that the emitted order is the earliest-ready order of the Go spec (whole-loop invariant not attempted)"},
		Trusted: []string{"T1 go toolchain, solvers", "T2 govc", "scope.lookup and childPos are pure functions"},
	})
	register(&PropDef{
		ID: "C16", Patterns: []string{"./interp"},
		Extra: func(r *Run) { r.fsPassThrough() },
		Covered: []string{"importSrc: already imported => recorded name returned, no evaluation step; cycle check precedes every evaluation step and yields an error; success registers the package; relative imports of main resolve against '.' for nested packages", "previousRoot: every ancestor below GOPATH/src is searched for a vendor directory through the supplied file system, nearest first", "pkgDir: vendor of the importer first, then GOPATH/src, then the enclosing roots", "importSrc reads the directory and continues from the root that pkgDir returned", "realFS: each fs operation it provides passes its parameters to the os function of the same name"},
		Uncov:   []string{"effectivePkg (path-segment manipulation): not under contract", "real vs. virtual filesystem equivalence beyond previousRoot's lookups"},
		Trusted: []string{"T1 go toolchain, solvers", "T2 govc"},
	})
}

func init() {
	register(&PropDef{
		ID: "C18", Patterns: []string{"./extract"},
		Extra:   func(r *Run) { r.extractShape() },
		Covered: []string{"fixConst: exact textual value and token per constant kind, helper imports recorded", "classification switch of genContent: constants and functions by value, variables by address, types as types, generic objects skipped (shape obligations)", "qualifier: every foreign package printed is imported", "constraint-interface test on the complete method set", "wrapper method strings: parameters, variadic last parameter, arguments, results, receiver qualification", "genBuildTags: go1.N, with the exclusion of go1.N+1 unless N is the newest known release", "float constants printed with at least one decimal digit per mantissa bit", "every untyped constant (IsUntyped bit) goes through fixConst", "one iteration of the interface method loop: an exported method gets exactly one entry, named after it and rendered from the signature of that method of that interface"},
		Uncov:   []string{"template rendering and format.Source", "that the output compiles for every package", "float constants are printed from a big.Float (see C14 finding)"},
		Trusted: []string{"T1 go toolchain, solvers", "T2 govc", "fmt.Sprintf is a pure function of its arguments; go/constant ExactString/String are distinct pure functions"},
	})
}

func init() {
	register(&PropDef{
		ID: "C04", Patterns: []string{"./interp"},
		Covered: []string{"single assignment copies content into the existing location", "define (:=) allocates a new location holding the copy and leaves the previous one untouched", "multi-assignment reads every right-hand side into a fresh temporary before the first write (first loop of the swap-safe closure)", "slice expressions: operands in order", "spread argument of a variadic call shares the caller's slice", "len/cap/append/copy/delete builtins, address-of and dereference, map index, map and array literals, make: result against the reflect model (append: one growth for all values)", "v, ok := m[k]: zero value for an absent key; a[i]: the aliasing element; range: one evaluation of the operand, iteration over the snapshot; call: arguments copied into the parameter slots", "array and slice literals are built in a value made for this evaluation and stored into the destination afterwards"},
		Uncov:   []string{"sequences of operations (the property's history quantifier)", "other call argument copies, range copies, struct composite literals, new, rangeMap / rangeInt", "reflect's own copy semantics (T3)"},
		Trusted: []string{"T1 go toolchain, solvers", "T2 govc", "T3 reflect.Value model (Set copies content, New allocates)", "value functions are pure lookups returning pre-state locations"},
	})
}

func init() {
	register(&PropDef{
		ID: "C07", Patterns: []string{"./interp"},
		Covered: []string{"script calling a host function from a multi-value assignment: each result is stored in a new slot for a newly declared variable and in place for a redeclared or assigned one (slot identity, for every position)", "plain host call: result i is stored in slot findex+i, func results replace the slot, no other slot is touched", "frame ids of wrapper frames (shared with C09/C10)", "callBin argument vectors (variadic spread, interface wrapping by the first implemented interface of getMapType)", "genFunctionWrapper: host arguments land in the parameter slots, results are read from the result slots", "genValueRecv: a pointer is followed at every step of an embedded-field path", "Symbols: wrappers and variables are bound to the root frame", "getWrapper: composed wrappers are chosen by the complete method set", "method values bind their receiver when evaluated (value receivers copied)", "valueInterfaceValue removes every interpreter wrapper and returns a plain value as it is", "a variable of a binary package is not a compile-time constant: its node designates the variable at run time (selector case of cfg, getBinVar)", "send prepares its value for the element type of the channel, host channel types included"},
		Uncov:   []string{"getFunc's result slice", "genInterfaceWrapper beyond the wrapper choice", "Execute's wrapping of function results", "reflect.Call itself"},
		Trusted: []string{"T1 go toolchain, solvers", "T2 govc", "T3 reflect.Value model", "value functions are pure lookups; destinations of one assignment are distinct slots (assumed)"},
	})
}

func init() {
	register(&PropDef{
		ID: "C11", Patterns: []string{"./interp"},
		Extra:   func(r *Run) { r.phaseOrder(); r.frameLayoutResync() },
		Covered: []string{"resizeFrame keeps every existing global slot (same location) and only grows the frame", "Execute phase order", "the importer's frame layout is re-synchronised after every successful source import", "source name of an unnamed piece", "main scheduled only by the piece that defines it", "multi-value definitions stay redeclarable across pieces", "nested := (known finding) and top-level comma-ok definitions (known finding)", "gta: every name of a package-level definition gets a global symbol; `var x T` symbols designate the declaration", "cfg: retyping a symbol updates the frame layout for every slot", "genGlobalVarDecl: variables of a later piece wait for each other only (shared with C15)"},
		Uncov:   []string{"equality of outputs across cuts of a program", "incremental parse classification (ast.go parse / wrapInMain)", "redefinition of functions and types", "Compile/Execute vs Eval equivalence"},
		Trusted: []string{"T1 go toolchain, solvers", "T2 govc"},
	})
}
