package main

func init() {
	register(&PropDef{
		ID: "C17", Patterns: []string{"./interp"}, Specs: []string{"build"},
		Covered: []string{"contains", "buildTagOk", "buildOptionOk", "buildLineOk", "skipFile", "goMinorVersion", "knownOs/knownArch tables"},
		Uncov:   []string{"buildOk comment-group selection (go/parser)", "where selection is applied (ast.go parse, src.go importSrc)"},
		Extra: func(r *Run) {
			r.tableSuperset("interp", "knownOs", "knownOSspec")
			r.tableSuperset("interp", "knownArch", "knownArchSpec")
		},
		Trusted: []string{"T1 go toolchain, go/types, solvers", "T2 govc VC generator", "T5 library contracts: strings.Split/HasPrefix/HasSuffix/TrimSuffix/Index, strconv.Atoi, path.Base", "T6 spec functions in /verif/specs/build.smt2 transcribe go/build"},
	})
}
