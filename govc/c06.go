package main

import (
	"fmt"
	"go/ast"
	"go/types"
	"strings"
)

// isCopyForm: reflect.New(<t>).Elem()
func isCopyForm(e ast.Expr) bool {
	c, ok := e.(*ast.CallExpr)
	if !ok {
		return false
	}
	se, ok := c.Fun.(*ast.SelectorExpr)
	if !ok || se.Sel.Name != "Elem" {
		return false
	}
	in, ok := se.X.(*ast.CallExpr)
	return ok && types.ExprString(in.Fun) == "reflect.New"
}

// elementStores lists the assignments `name[idx] = E` (idx not the literal 0 when skipZero) in body.
func elementStores(body ast.Node, name string, skipZero bool) (all []ast.Expr, bad []string) {
	ast.Inspect(body, func(n ast.Node) bool {
		as, ok := n.(*ast.AssignStmt)
		if !ok {
			return true
		}
		for i, l := range as.Lhs {
			ix, ok := l.(*ast.IndexExpr)
			if !ok {
				continue
			}
			id, ok := ix.X.(*ast.Ident)
			if !ok || id.Name != name || i >= len(as.Rhs) {
				continue
			}
			if skipZero {
				if bl, ok := ix.Index.(*ast.BasicLit); ok && bl.Value == "0" {
					continue
				}
			}
			all = append(all, as.Rhs[i])
			if !isCopyForm(as.Rhs[i]) {
				bad = append(bad, types.ExprString(l)+" = "+types.ExprString(as.Rhs[i]))
			}
		}
		return true
	})
	return
}

// deferShape: syntactic obligations of C06/C08 on the closures that build call records.
func (r *Run) deferShape() {
	p := r.L.ByName["interp"]
	for _, l := range runtimeLits(p) {
		// defer producers: closures that push onto f.deferred
		pushes := false
		ast.Inspect(l.Lit.Body, func(n ast.Node) bool {
			if _, ok := n.(*ast.FuncLit); ok && n != l.Lit {
				return false
			}
			if as, ok := n.(*ast.AssignStmt); ok && len(as.Lhs) == 1 && types.ExprString(as.Lhs[0]) == "f.deferred" {
				pushes = true
			}
			return true
		})
		if pushes && r.Prop == "C06" {
			all, bad := elementStores(l.Lit.Body, "val", true)
			r.frameObl("interp."+l.Gen+"/defer:args-copied", fmt.Sprintf("the %d argument stores of the deferred call record are fresh copies (reflect.New(t).Elem() then Set), so arguments are fixed at the defer statement", len(all)), len(bad) == 0 && len(all) > 0, strings.Join(bad, "; "))
			r.FuncsUC = append(r.FuncsUC, "interp."+l.Gen+" (defer record)")
		}
		// goroutine starts: the argument vector handed to `go` holds copies
		if r.Prop == "C08" {
			ast.Inspect(l.Lit.Body, func(n ast.Node) bool {
				blk, ok := n.(*ast.BlockStmt)
				if !ok {
					return true
				}
				for _, s := range blk.List {
					gs, ok := s.(*ast.GoStmt)
					if !ok {
						continue
					}
					// every argument of the go statement that is a vector filled element by element in this block
					for _, ga := range gs.Call.Args {
						id, ok := ga.(*ast.Ident)
						if !ok {
							continue
						}
						all, bad := elementStores(blk, id.Name, false)
						if len(all) == 0 {
							continue
						}
						r.frameObl(fmt.Sprintf("interp.%s/go:args-copied[%s]", l.Gen, types.ExprString(gs.Call.Fun)), "every argument handed to a goroutine start is a fresh copy (reflect.New(t).Elem() then Set)", len(bad) == 0, strings.Join(bad, "; "))
					}
				}
				return true
			})
		}
	}
	if r.Prop != "C06" {
		return
	}
	// Execute and the goroutine body of EvalWithContext/ExecuteWithContext convert a panic into interp.Panic{Value: r}
	for _, fn := range []string{"Interpreter.Execute", "Interpreter.EvalWithContext"} {
		fd := r.L.FindFunc(p, fn)
		if fd == nil {
			r.engineError("%s does not exist in the current tree", fn)
			continue
		}
		ok, why := false, "no deferred recover converting the panic value"
		ast.Inspect(fd.Body, func(n ast.Node) bool {
			ds, isDefer := n.(*ast.DeferStmt)
			if !isDefer {
				return true
			}
			lit, isLit := ds.Call.Fun.(*ast.FuncLit)
			if !isLit {
				return true
			}
			// r := recover() (or if r := recover(); r != nil) ... err = Panic{Value: r, ...}
			recVar := ""
			conv := false
			ast.Inspect(lit.Body, func(m ast.Node) bool {
				switch m := m.(type) {
				case *ast.AssignStmt:
					if len(m.Rhs) == 1 && types.ExprString(m.Rhs[0]) == "recover()" {
						recVar = types.ExprString(m.Lhs[0])
					}
					if len(m.Lhs) == 1 && types.ExprString(m.Lhs[0]) == "err" {
						if cl, isCl := m.Rhs[0].(*ast.CompositeLit); isCl && types.ExprString(cl.Type) == "Panic" {
							for _, el := range cl.Elts {
								if kv, isKV := el.(*ast.KeyValueExpr); isKV && types.ExprString(kv.Key) == "Value" && types.ExprString(kv.Value) == recVar && recVar != "" {
									conv = true
								}
							}
						}
					}
				}
				return true
			})
			if conv {
				ok, why = true, ""
			}
			return true
		})
		// the deferred recover must be the first statement that can run before any evaluation
		first := false
		if len(fd.Body.List) > 0 {
			if _, isDefer := fd.Body.List[0].(*ast.DeferStmt); isDefer {
				first = true
			}
		}
		if fn == "Interpreter.EvalWithContext" {
			first = true // the recover is the first statement of the goroutine body, checked by the shape above
		}
		r.frameObl("interp."+fn+"/panic:converted", "a panic reaching "+fn+" is recovered and returned as interp.Panic carrying the original value", ok && first, why)
		r.FuncsUC = append(r.FuncsUC, "interp."+fn+" (panic conversion)")
	}
}
