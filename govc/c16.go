package main

import (
	"go/ast"
	"go/types"
	"sort"
	"strings"
)

// fsPassThrough (C16): realFS, the file system used when the sources are on disk, is a pass-through to
// the os package — that is what makes "on disk" and "in a supplied file system" the same resolution.
// The fs package upgrades a file system by its method set (fs.Stat uses a Stat method when there is one,
// fs.ReadFile a ReadFile method, fs.ReadDir a ReadDir method; otherwise they go through Open), so the
// schematic contract is per method: a method named M of realFS, for M one of the fs operations the os
// package provides under the same name with the same meaning (Open, Stat, ReadFile, ReadDir), hands its
// own parameters, in order, to os.M and to no other function of os (Stat -> os.Lstat type-checks and
// stops following symbolic links; ReadDir -> a hand-written listing loses the sorting).
func (r *Run) fsPassThrough() {
	p := r.L.ByName["interp"]
	if p == nil {
		return
	}
	same := map[string]bool{"Open": true, "Stat": true, "ReadFile": true, "ReadDir": true}
	found := false
	var others []string
	for _, f := range p.Syntax {
		for _, d := range f.Decls {
			fd, ok := d.(*ast.FuncDecl)
			if !ok || fd.Recv == nil || len(fd.Recv.List) != 1 || fd.Body == nil {
				continue
			}
			rt := types.ExprString(fd.Recv.List[0].Type)
			if strings.TrimPrefix(rt, "*") != "realFS" {
				continue
			}
			m := fd.Name.Name
			if !same[m] {
				others = append(others, m)
				continue
			}
			if m == "Open" {
				found = true
			}
			var params []string
			for _, fl := range fd.Type.Params.List {
				for _, n := range fl.Names {
					params = append(params, n.Name)
				}
			}
			var osCalls []string
			delegates := false
			ast.Inspect(fd.Body, func(n ast.Node) bool {
				c, ok := n.(*ast.CallExpr)
				if !ok {
					return true
				}
				se, ok := c.Fun.(*ast.SelectorExpr)
				if !ok {
					return true
				}
				id, ok := se.X.(*ast.Ident)
				if !ok {
					return true
				}
				pn, ok := p.TypesInfo.ObjectOf(id).(*types.PkgName)
				if !ok || pn.Imported().Path() != "os" {
					return true
				}
				osCalls = append(osCalls, "os."+se.Sel.Name)
				if se.Sel.Name == m && len(c.Args) == len(params) {
					okArgs := true
					for i, a := range c.Args {
						if types.ExprString(a) != params[i] {
							okArgs = false
						}
					}
					delegates = delegates || okArgs
				}
				return true
			})
			onlyThat := true
			for _, c := range osCalls {
				if c != "os."+m {
					onlyThat = false
				}
			}
			sort.Strings(osCalls)
			r.ground("interp.realFS."+m+"/passes-through-to-os."+m, "realFS."+m+" hands its parameters to os."+m+" and calls no other function of os",
				delegates && onlyThat, "realFS."+m+" calls "+strings.Join(osCalls, ", ")+" (parameters "+strings.Join(params, ", ")+")")
			r.FuncsUC = append(r.FuncsUC, "interp.realFS."+m+" (delegation)")
		}
	}
	r.ground("interp.realFS/opens-through-os.Open", "realFS has an Open method (the fs.FS of sources on disk)", found, "no Open method on realFS in the current tree")
	if len(others) > 0 {
		sort.Strings(others)
		r.Extra["realFS_methods_without_contract"] = others
	}
}
