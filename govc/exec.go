package main

import (
	"fmt"
	"go/ast"
	"go/constant"
	"go/token"
	"go/types"
	"sort"
	"strings"

	"golang.org/x/tools/go/packages"
)

// Obligation is one named proof obligation; disjuncts are the (pc ∧ ¬φ) queries of the
// paths that reach it: the obligation holds iff their disjunction is unsat.
type Obligation struct {
	Name      string   `json:"name"`
	Prop      string   `json:"property"`
	Unit      string   `json:"unit"`
	Kind      string   `json:"kind"`
	Src       string   `json:"clause,omitempty"`
	disjuncts []string
	decls     int // number of decls visible
	x         *Exec
	getValues []string
	extraAsserts []string
	Res       Result `json:"result"`
	Backend   string `json:"backend"`
	Size      int    `json:"smt_bytes"`
	MustFail  bool   `json:"must_fail,omitempty"` // canary
	Cover     bool   `json:"cover,omitempty"`     // must be sat
	Case      string `json:"case,omitempty"`
	replay    *ReplaySpec
}

type ReplaySpec struct {
	Lines   []string
	Vals    map[string]string // name -> SMT term to evaluate in the model
	Assumes []string          // extra constraints used only when searching a replayable model
}

// Exec symbolically executes one proof unit.
type Exec struct {
	L        *Loaded
	pkg      *packages.Package
	db       *ContractDB
	unit     string
	prop     string
	mode     string // math | wrap | bv
	decls    []string
	declared map[string]bool
	obls     map[string]*Obligation
	oblOrder []string
	nfresh   int
	depth    int
	loopOrd  map[ast.Stmt]int
	loopSeen map[int]bool
	execLoopSeen map[int]bool
	con      *Contract
	caseName string
	contract bool // evaluating a contract expression
	quant    map[string]Term
	conScope map[string]types.Object
	paths    int
	assumes  []string // assumption notes gathered (trusted contracts used, havocs)
	curFn    string
	allowPanic string // SMT condition under which a panic is allowed (evaluated in pre-state)
	inlineStack []string
	retObjs  []types.Object
	assuming     bool
	nref         int
	openCaptured bool
	localTags    map[string]bool // locals named by the tag list of the clause being evaluated
	litDepth     int
	nlit, nlitVerified int
	litPos       token.Pos
	inlineLitPos token.Pos
}

func (x *Exec) noteAssume(s string) {
	for _, a := range x.assumes {
		if a == s {
			return
		}
	}
	x.assumes = append(x.assumes, s)
}

func (x *Exec) declare(line, name string) {
	if x.declared[name] {
		return
	}
	x.declared[name] = true
	x.decls = append(x.decls, line)
}

func (x *Exec) declConst(name string, s Sort) Term {
	x.declare(fmt.Sprintf("(declare-const %s %s)", name, s), name)
	return Term{name, s}
}

func (x *Exec) declFun(name string, args []Sort, res Sort) {
	var as []string
	for _, a := range args {
		as = append(as, string(a))
	}
	x.declare(fmt.Sprintf("(declare-fun %s (%s) %s)", name, strings.Join(as, " "), res), name)
}

func (x *Exec) fresh(prefix string, s Sort) Term {
	x.nfresh++
	return x.declConst(fmt.Sprintf("%s_%d", sanitize(prefix), x.nfresh), s)
}

// newRef allocates a reference: a concrete negative integer, distinct from null (0), from every
// other allocation of this unit and from every reference of the pre-state (those are >= 0).
func (x *Exec) newRef(st *State, prefix string) Term {
	// allocation pointer: every reference allocated so far lies in [alloc, 0); the next one is alloc-1.
	cur, _ := st.names["$alloc"].(Term)
	if cur.S == "" {
		cur = intLit(0)
	}
	var t Term
	if isNumLit(cur.S) {
		n := new(bigInt)
		n.SetString(strings.TrimSuffix(strings.TrimPrefix(cur.S, "(- "), ")"), 10)
		if strings.HasPrefix(cur.S, "(- ") {
			n.Neg(n)
		}
		n.Sub(n, bigOne)
		t = bigLit(n)
	} else {
		t = Term{"(- " + cur.S + " 1)", SInt}
	}
	st.names["$alloc"] = t
	return t
}

// freshCond: x was allocated by this unit (alloc <= x < 0; pre-state references are >= 0).
func (x *Exec) freshCond(st *State, v Term) string {
	cur, _ := st.names["$alloc"].(Term)
	if cur.S == "" {
		cur = intLit(0)
	}
	return "(and (< " + v.S + " 0) (<= " + cur.S + " " + v.S + "))"
}

// uf applies an uninterpreted function, declaring it on first use.
func (x *Exec) uf(name string, res Sort, args ...Term) Term {
	name = sanitize(name)
	var ss []Sort
	var as []string
	for _, a := range args {
		ss = append(ss, a.Sort)
		as = append(as, a.S)
	}
	if len(args) == 0 {
		return x.declConst(name, res)
	}
	x.declFun(name, ss, res)
	return Term{"(" + name + " " + strings.Join(as, " ") + ")", res}
}

// ---------------------------------------------------------------------------------------------
// sorts and types

func (x *Exec) intSort(t *types.Basic) Sort {
	if x.mode == "bv" {
		return BV(intWidth(t))
	}
	return SInt
}

func intWidth(t *types.Basic) int {
	switch t.Kind() {
	case types.Int8, types.Uint8:
		return 8
	case types.Int16, types.Uint16:
		return 16
	case types.Int32, types.Uint32:
		return 32
	}
	return 64
}

func isUnsigned(t *types.Basic) bool { return t.Info()&types.IsUnsigned != 0 }

func (x *Exec) sortOf(t types.Type) Sort {
	if t == nil {
		return SInt
	}
	if n, ok := t.(*types.Named); ok && n.Obj().Pkg() != nil && n.Obj().Pkg().Path() == "reflect" && n.Obj().Name() == "Kind" {
		return SInt
	}
	switch u := t.Underlying().(type) {
	case *types.Basic:
		switch {
		case u.Info()&types.IsBoolean != 0:
			return SBool
		case u.Info()&types.IsString != 0:
			return SStr
		case u.Info()&types.IsInteger != 0:
			return x.intSort(u)
		}
		return SInt
	}
	return SInt
}

func zeroOf(s Sort) Term {
	switch {
	case s == SBool:
		return boolLit(false)
	case s == SStr:
		return strLit("")
	case s.isBV():
		return Term{fmt.Sprintf("(_ bv0 %d)", s.width()), s}
	}
	return intLit(0)
}

func (x *Exec) zeroValue(st *State, t types.Type) Value {
	if x.isLocStruct(t) {
		r := x.newRef(st, "zs")
		x.zeroFields(st, r, t)
		return r
	}
	return zeroOf(x.sortOf(t))
}

func (x *Exec) zeroFields(st *State, r Term, t types.Type) {
	s := t.Underlying().(*types.Struct)
	for i := 0; i < s.NumFields(); i++ {
		f := s.Field(i)
		if x.isLocStruct(f.Type()) {
			x.zeroFields(st, x.subRef(t, f, r), f.Type())
			continue
		}
		x.fieldWrite(st, t, f, r, zeroOf(x.sortOf(f.Type())))
	}
}

// isLocStruct: struct-by-value types that are modelled as storage locations (they have
// at least one field this package can name). Others (reflect.Value, sync.Mutex) are opaque scalars.
func (x *Exec) isLocStruct(t types.Type) bool {
	if t == nil {
		return false
	}
	s, ok := t.Underlying().(*types.Struct)
	if !ok {
		return false
	}
	if n, ok := t.(*types.Named); ok && n.Obj().Pkg() != nil {
		if x.L.target[n.Obj().Pkg().Path()] {
			return true
		}
		for i := 0; i < s.NumFields(); i++ {
			if s.Field(i).Exported() {
				return true
			}
		}
		return false
	}
	return true
}

func typeName(t types.Type) string {
	for {
		if p, ok := t.(*types.Pointer); ok {
			t = p.Elem()
			continue
		}
		break
	}
	if n, ok := t.(*types.Named); ok {
		if n.Obj().Pkg() != nil {
			return n.Obj().Pkg().Name() + "_" + n.Obj().Name()
		}
		return n.Obj().Name()
	}
	return sanitize(t.String())
}

func (x *Exec) fieldKey(owner types.Type, f *types.Var) string {
	return "F_" + typeName(owner) + "_" + f.Name()
}

func (x *Exec) rangeAssume(st *State, t Term, typ types.Type) {
	if t.Sort != SInt || typ == nil {
		return
	}
	b, ok := typ.Underlying().(*types.Basic)
	if !ok || b.Info()&types.IsInteger == 0 || b.Kind() == types.UntypedInt || b.Kind() == types.UntypedRune {
		return
	}
	lo, hi := intRange(b)
	st.assume(fmt.Sprintf("(and (<= %s %s) (<= %s %s))", lo, t.S, t.S, hi))
}

func intRange(b *types.Basic) (string, string) {
	w := intWidth(b)
	if isUnsigned(b) {
		return "0", pow2m1(w)
	}
	return "(- " + pow2(w-1) + ")", pow2m1(w - 1)
}

func pow2(n int) string {
	return new(bigInt).Lsh(bigOne, uint(n)).String()
}
func pow2m1(n int) string {
	v := new(bigInt).Lsh(bigOne, uint(n))
	return v.Sub(v, bigOne).String()
}

// ---------------------------------------------------------------------------------------------
// heap

func (x *Exec) heapGet(st *State, key string, s Sort) Term {
	if t, ok := st.heap[key]; ok {
		return t
	}
	if nm, ok := st.names["$stale:"+key].(string); ok {
		// havocked before its first use on this path: the version chosen at the havoc, so that states
		// cloned in between (old-state snapshots) agree on it
		delete(st.names, "$stale:"+key)
		t := x.declConst(nm, s)
		st.heap[key] = t
		return t
	}
	return x.declConst(key+"_0", s)
}

func (x *Exec) heapHavoc(st *State, key string) {
	var s Sort
	if t, ok := st.heap[key]; ok {
		s = t.Sort
	} else if x.declared[key+"_0"] {
		for _, d := range x.decls {
			if strings.HasPrefix(d, "(declare-const "+key+"_0 ") {
				s = Sort(strings.TrimSuffix(strings.TrimPrefix(d, "(declare-const "+key+"_0 "), ")"))
			}
		}
	}
	if s == "" {
		x.nfresh++
		st.names["$stale:"+key] = fmt.Sprintf("%s_hs%d", sanitize(key), x.nfresh) // sort not known yet: named now, declared at the first read
		return
	}
	st.heap[key] = x.fresh(key+"_h", s)
}

// selectSimp builds (select arr idx), resolving it syntactically through stores whose index is
// textually identical or a different numeric literal.
func selectSimp(arr string, idx string) string {
	for strings.HasPrefix(arr, "(store ") {
		toks := sexprTokens(arr)
		// ( store A i v )
		a, j := readSexpr(toks, 2)
		i, j2 := readSexpr(toks, j)
		v, _ := readSexpr(toks, j2)
		norm := func(t string) string { return strings.ReplaceAll(strings.ReplaceAll(t, "( ", "("), " )", ")") }
		a, i, v = norm(a), norm(i), norm(v)
		if i == idx {
			return v
		}
		if isNumLit(i) && isNumLit(idx) {
			arr = a
			continue
		}
		break
	}
	return "(select " + arr + " " + idx + ")"
}

func isNumLit(t string) bool {
	t = strings.TrimSuffix(strings.TrimPrefix(t, "(- "), ")")
	if t == "" {
		return false
	}
	for _, c := range t {
		if c < '0' || c > '9' {
			return false
		}
	}
	return true
}

func (x *Exec) fieldRead(st *State, owner types.Type, f *types.Var, ref Term) Term {
	fs := x.sortOf(f.Type())
	key := x.fieldKey(owner, f)
	arr := x.heapGet(st, key, arraySort(SInt, fs))
	if strings.HasPrefix(arr.S, "(store ") && !strings.Contains(arr.S, "\"") {
		if fs == SInt && isRefType(f.Type()) {
			x.heapGet(newState(), key, arraySort(SInt, fs))
			if !x.underBinder(ref.S) {
				x.declare("(assert (>= (select "+key+"_0 "+ref.S+") 0))", "ax_ref_"+key+":"+ref.S)
			} else {
				x.declare("(assert (forall ((r Int)) (! (>= (select "+key+"_0 r) 0) :pattern ((select "+key+"_0 r)))))", "ax_ref_all_"+key)
			}
		}
		return Term{selectSimp(arr.S, ref.S), fs}
	}
	if fs == SInt && isRefType(f.Type()) {
		// references stored in the pre-state heap are pre-state references (>= 0)
		x.heapGet(newState(), key, arraySort(SInt, fs))
		if !x.underBinder(ref.S) {
			x.declare("(assert (>= (select "+key+"_0 "+ref.S+") 0))", "ax_ref_"+key+":"+ref.S)
		} else {
			x.declare("(assert (forall ((r Int)) (! (>= (select "+key+"_0 r) 0) :pattern ((select "+key+"_0 r)))))", "ax_ref_all_"+key)
		}
	}
	return Term{"(select " + arr.S + " " + ref.S + ")", fs}
}

func isRefType(t types.Type) bool {
	switch t.Underlying().(type) {
	case *types.Pointer, *types.Slice, *types.Map, *types.Chan, *types.Interface, *types.Signature, *types.Struct:
		return true // handles: pre-state handles are >= 0, allocations of the unit are negative
	}
	return false
}

func (x *Exec) fieldWrite(st *State, owner types.Type, f *types.Var, ref Term, v Term) {
	fs := x.sortOf(f.Type())
	key := x.fieldKey(owner, f)
	arr := x.heapGet(st, key, arraySort(SInt, fs))
	st.heap[key] = Term{"(store " + arr.S + " " + ref.S + " " + v.S + ")", arr.Sort}
}

func (x *Exec) subRef(owner types.Type, f *types.Var, ref Term) Term {
	t := x.uf("sub_"+typeName(owner)+"_"+f.Name(), SInt, ref)
	if !x.underBinder(ref.S) {
		// a sub-location belongs to the same generation (pre-state / allocated here) as its owner
		x.declare("(assert (= (>= "+ref.S+" 0) (>= "+t.S+" 0)))", "ax_sub:"+t.S)
	}
	return t
}

// copyStruct copies every field of the struct stored at src into dst.
func (x *Exec) copyStruct(st *State, t types.Type, dst, src Term) {
	s := t.Underlying().(*types.Struct)
	for i := 0; i < s.NumFields(); i++ {
		f := s.Field(i)
		if x.isLocStruct(f.Type()) {
			x.copyStruct(st, f.Type(), x.subRef(t, f, dst), x.subRef(t, f, src))
			continue
		}
		x.fieldWrite(st, t, f, dst, x.fieldRead(st, t, f, src))
	}
}

// structElems allocates n fresh, pairwise distinct locations for the elements of a slice of struct
// values and returns the array of their references. src == nil: the elements are zero values;
// otherwise element i is a copy of the struct at reference src[i] (append, composite literals).
// Elements of one slice at different indices are different variables (Go spec, "Slice types"):
// the references are base-1-i, a linear, injective function of the index.
func (x *Exec) structElems(st *State, t types.Type, n Term, src *Term) Term {
	base, _ := st.names["$alloc"].(Term)
	if base.S == "" {
		base = intLit(0)
	}
	lo := Term{"(- " + base.S + " " + n.S + ")", SInt}
	st.assume("(>= " + n.S + " 0)")
	st.names["$alloc"] = lo
	arr := x.fresh("elrefs", arraySort(SInt, SInt))
	st.assume(fmt.Sprintf("(forall ((i Int)) (! (=> (and (<= 0 i) (< i %s)) (= (select %s i) (- %s 1 i))) :pattern ((select %s i))))", n.S, arr.S, base.S, arr.S))
	var fill func(t types.Type)
	fill = func(t types.Type) {
		u := t.Underlying().(*types.Struct)
		for i := 0; i < u.NumFields(); i++ {
			f := u.Field(i)
			if x.isLocStruct(f.Type()) {
				engineFail("slice of %s: nested struct field %s is outside the element model", t, f.Name())
			}
			fs := x.sortOf(f.Type())
			key := x.fieldKey(t, f)
			old := x.heapGet(st, key, arraySort(SInt, fs))
			nf := x.fresh(key+"_el", arraySort(SInt, fs))
			val := zeroOf(fs).S
			if src != nil {
				val = fmt.Sprintf("(select %s (select %s (- %s 1 r)))", old.S, src.S, base.S)
			}
			st.assume(fmt.Sprintf("(forall ((r Int)) (! (= (select %s r) (ite (and (<= %s r) (< r %s)) %s (select %s r))) :pattern ((select %s r))))", nf.S, lo.S, base.S, val, old.S, nf.S))
			st.heap[key] = nf
		}
	}
	fill(t)
	return arr
}

// seKey names the heap of slice contents. Slices of different element types cannot alias, so each
// non-basic element type has its own heap (basic element types share one per sort).
func (x *Exec) seKey(es Sort, et ...types.Type) string {
	k := "SE_" + sanitize(string(es))
	if len(et) > 0 && et[0] != nil && es == SInt {
		if _, basic := et[0].Underlying().(*types.Basic); !basic {
			k += "_" + sanitize(types.TypeString(et[0], func(p *types.Package) string { return p.Name() }))
		}
	}
	return k
}

func (x *Exec) sliceArr(st *State, h Term, es Sort, et ...types.Type) Term {
	se := x.heapGet(st, x.seKey(es, et...), arraySort(SInt, arraySort(SInt, es)))
	if strings.HasPrefix(se.S, "(store ") && !strings.Contains(se.S, "\"") {
		return Term{selectSimp(se.S, h.S), arraySort(SInt, es)}
	}
	return Term{"(select " + se.S + " " + h.S + ")", arraySort(SInt, es)}
}

func (x *Exec) sliceSetArr(st *State, h Term, es Sort, arr Term, et ...types.Type) {
	key := x.seKey(es, et...)
	se := x.heapGet(st, key, arraySort(SInt, arraySort(SInt, es)))
	st.heap[key] = Term{"(store " + se.S + " " + h.S + " " + arr.S + ")", se.Sort}
}

// underBinder reports whether t mentions a variable bound by an enclosing quantifier.
func (x *Exec) underBinder(t string) bool {
	for _, q := range x.quant {
		if strings.Contains(t, q.S) {
			return true
		}
	}
	return false
}

// slen is the length function of slice handles; it is non-negative. The axiom is instantiated
// on ground handles (keeps VCs quantifier-free so that solvers can return models) and stated
// with a quantifier only for handles under a binder.
func (x *Exec) slen(h Term) Term {
	x.declFun("slen", []Sort{SInt}, SInt)
	x.declare("(assert (= (slen 0) 0))", "ax_slen0")
	if x.underBinder(h.S) {
		x.declare("(assert (forall ((h Int)) (! (>= (slen h) 0) :pattern ((slen h)))))", "ax_slen")
	} else {
		x.declare("(assert (>= (slen "+h.S+") 0))", "ax_slen:"+h.S)
	}
	return Term{"(slen " + h.S + ")", SInt}
}

func (x *Exec) newSlice(st *State, n Term, es Sort, arr *Term, et ...types.Type) Term {
	h := x.newRef(st, "sl")
	st.assume("(= " + x.slen(h).S + " " + n.S + ")")
	if arr != nil {
		x.sliceSetArr(st, h, es, *arr, et...)
	}
	return h
}

func (x *Exec) mapKeys(ks, vs Sort) (string, string) {
	b := "M_" + sanitize(string(ks)) + "_" + sanitize(string(vs))
	return b + "_has", b + "_val"
}

func (x *Exec) mapHas(st *State, m Term, ks, vs Sort) Term {
	hk, _ := x.mapKeys(ks, vs)
	a := x.heapGet(st, hk, arraySort(SInt, arraySort(ks, SBool)))
	return Term{"(select " + a.S + " " + m.S + ")", arraySort(ks, SBool)}
}

func (x *Exec) mapVal(st *State, m Term, ks, vs Sort) Term {
	_, vk := x.mapKeys(ks, vs)
	a := x.heapGet(st, vk, arraySort(SInt, arraySort(ks, vs)))
	return Term{"(select " + a.S + " " + m.S + ")", arraySort(ks, vs)}
}

func (x *Exec) mapSet(st *State, m Term, ks, vs Sort, has, val Term) {
	hk, vk := x.mapKeys(ks, vs)
	a := x.heapGet(st, hk, arraySort(SInt, arraySort(ks, SBool)))
	b := x.heapGet(st, vk, arraySort(SInt, arraySort(ks, vs)))
	st.heap[hk] = Term{"(store " + a.S + " " + m.S + " " + has.S + ")", a.Sort}
	st.heap[vk] = Term{"(store " + b.S + " " + m.S + " " + val.S + ")", b.Sort}
}

func globalKey(o types.Object) string {
	p := ""
	if o.Pkg() != nil {
		p = o.Pkg().Name()
	}
	return "G_" + p + "_" + o.Name()
}

// ---------------------------------------------------------------------------------------------
// obligations

func (x *Exec) oblige(st *State, kind, label, phi string, src string) *Obligation {
	name := x.unit + "/" + kind + ":" + label
	if x.caseName != "" {
		name += "[" + x.caseName + "]"
	}
	q := and(st.pcTerm(), not(phi))
	o := x.obls[name]
	if o == nil {
		o = &Obligation{Name: name, Prop: x.prop, Unit: x.unit, Kind: kind, Src: src, x: x, Case: x.caseName}
		x.obls[name] = o
		x.oblOrder = append(x.oblOrder, name)
	}
	o.disjuncts = append(o.disjuncts, q)
	o.decls = len(x.decls)
	return o
}

func (o *Obligation) script(prelude string) string { return o.scriptOf(prelude, o.disjuncts) }

// scriptOf: the VC restricted to some of the paths (an obligation holds iff it holds on every path).
func (o *Obligation) scriptOf(prelude string, disjuncts []string) string {
	var b strings.Builder
	b.WriteString(prelude)
	for _, d := range o.x.decls[:o.decls] {
		b.WriteString(d)
		b.WriteByte('\n')
	}
	b.WriteString("(assert " + or(disjuncts...) + ")\n")
	for _, a := range o.extraAsserts {
		b.WriteString("(assert " + a + ")\n")
	}
	b.WriteString("(check-sat)\n")
	if len(o.getValues) > 0 {
		b.WriteString("(get-value (" + strings.Join(o.getValues, " ") + "))\n")
	}
	return b.String()
}

// ---------------------------------------------------------------------------------------------
// expression evaluation

func (x *Exec) info() *types.Info { return x.pkg.TypesInfo }

func (x *Exec) typeOf(e ast.Expr) types.Type {
	if tv, ok := x.info().Types[e]; ok {
		return tv.Type
	}
	if id, ok := e.(*ast.Ident); ok {
		if o := x.info().ObjectOf(id); o != nil {
			return o.Type()
		}
	}
	return nil
}

func (x *Exec) constTerm(v constant.Value, t types.Type) (Term, bool) {
	switch v.Kind() {
	case constant.Bool:
		return boolLit(constant.BoolVal(v)), true
	case constant.String:
		return strLit(constant.StringVal(v)), true
	case constant.Int:
		b, ok := new(bigInt).SetString(v.ExactString(), 10)
		if !ok {
			return Term{}, false
		}
		if s := x.sortOf(t); s.isBV() {
			return bvLit(b, s.width()), true
		}
		if t != nil {
			if bt, ok := t.Underlying().(*types.Basic); ok && bt.Info()&types.IsFloat != 0 {
				return x.uf("fconst_"+sanitize(v.ExactString()), SInt), true
			}
		}
		return bigLit(b), true
	case constant.Float:
		if t != nil {
			if bt, ok := t.Underlying().(*types.Basic); ok && bt.Info()&types.IsInteger != 0 {
				if iv := constant.ToInt(v); iv.Kind() == constant.Int {
					return x.constTerm(iv, t)
				}
			}
		}
		return x.uf("fconst_"+sanitize(v.ExactString()), SInt), true
	}
	return Term{}, false
}

func asTerm(v Value) Term {
	switch t := v.(type) {
	case Term:
		return t
	case *Term:
		return *t
	}
	engineFail("expected a scalar term, got %T", v)
	return Term{}
}

func (x *Exec) evalT(e ast.Expr, st *State) Term {
	v, _ := x.eval(e, st)
	return asTerm(v)
}

// evalGuarded evaluates e under the extra assumption g (for obligations raised inside e);
// assumptions that the evaluation itself adds (callee postconditions) are kept, guarded by g.
func (x *Exec) evalGuarded(e ast.Expr, st *State, g string) string {
	n := len(st.pc)
	st.pc = append(st.pc, g)
	b := x.evalBool(e, st)
	added := append([]string(nil), st.pc[n+1:]...)
	st.pc = st.pc[:n]
	for _, a := range added {
		st.assume(implies(g, a))
	}
	return b
}

func (x *Exec) evalBool(e ast.Expr, st *State) string {
	t := x.evalT(e, st)
	if t.Sort != SBool {
		engineFail("expected Bool for %s, got %s", types.ExprString(e), t.Sort)
	}
	return t.S
}

func (x *Exec) eval(e ast.Expr, st *State) (Value, types.Type) {
	if !x.contract {
		if tv, ok := x.info().Types[e]; ok && tv.Value != nil {
			if t, ok := x.constTerm(tv.Value, tv.Type); ok {
				return t, tv.Type
			}
		}
	}
	switch e := e.(type) {
	case *ast.ParenExpr:
		return x.eval(e.X, st)
	case *ast.BasicLit:
		return x.evalLit(e)
	case *ast.Ident:
		return x.evalIdent(e, st)
	case *ast.SelectorExpr:
		return x.evalSelector(e, st)
	case *ast.StarExpr:
		v, t := x.eval(e.X, st)
		var et types.Type
		if p, ok := t.Underlying().(*types.Pointer); ok {
			et = p.Elem()
		}
		r := asTerm(v)
		x.safety(st, "nil-deref", e.X, "(not (= "+r.S+" 0))")
		if x.isLocStruct(et) {
			return r, et
		}
		s := x.sortOf(et)
		arr := x.heapGet(st, "PT_"+sanitize(string(s)), arraySort(SInt, s))
		return Term{"(select " + arr.S + " " + r.S + ")", s}, et
	case *ast.UnaryExpr:
		return x.evalUnary(e, st)
	case *ast.BinaryExpr:
		return x.evalBinary(e, st)
	case *ast.IndexExpr:
		return x.evalIndex(e, st)
	case *ast.SliceExpr:
		return x.evalSlice(e, st)
	case *ast.CallExpr:
		return x.evalCall(e, st)
	case *ast.FuncLit:
		return &FuncV{Lit: e, Env: st}, x.typeOf(e)
	case *ast.CompositeLit:
		return x.evalComposite(e, st)
	case *ast.TypeAssertExpr:
		v, _ := x.eval(e.X, st)
		t := x.typeOf(e)
		if t == nil && x.contract {
			// contract expressions are not type-checked: resolve T of x.(T) by name
			if t = x.contractType(e.Type); t == nil {
				engineFail("type %s of a type assertion in a contract cannot be resolved", types.ExprString(e.Type))
			}
		}
		r := x.uf("assert_"+sanitize(types.TypeString(t, nil)), x.sortOf(t), asTerm(v))
		return r, t
	}
	engineFail("unsupported expression %T: %s", e, types.ExprString(e))
	return nil, nil
}

// contractType resolves a type expression written in a contract (T, pkg.T, *T, *pkg.T).
func (x *Exec) contractType(te ast.Expr) types.Type {
	switch te := te.(type) {
	case *ast.ParenExpr:
		return x.contractType(te.X)
	case *ast.StarExpr:
		if b := x.contractType(te.X); b != nil {
			return types.NewPointer(b)
		}
	case *ast.Ident:
		if _, o := x.pkg.Types.Scope().LookupParent(te.Name, token.NoPos); o != nil {
			if tn, ok := o.(*types.TypeName); ok {
				return tn.Type()
			}
		}
	case *ast.SelectorExpr:
		if id, ok := te.X.(*ast.Ident); ok {
			for _, imp := range x.pkg.Types.Imports() {
				if imp.Name() == id.Name {
					if tn, ok := imp.Scope().Lookup(te.Sel.Name).(*types.TypeName); ok {
						return tn.Type()
					}
				}
			}
		}
	}
	return nil
}

func (x *Exec) evalLit(e *ast.BasicLit) (Value, types.Type) {
	v := constant.MakeFromLiteral(e.Value, e.Kind, 0)
	switch e.Kind {
	case token.INT:
		t, _ := x.constTerm(v, types.Typ[types.UntypedInt])
		return t, types.Typ[types.UntypedInt]
	case token.CHAR:
		t, _ := x.constTerm(v, types.Typ[types.UntypedRune])
		return t, types.Typ[types.UntypedRune]
	case token.STRING:
		return strLit(constant.StringVal(v)), types.Typ[types.String]
	}
	engineFail("unsupported literal %s", e.Value)
	return nil, nil
}

func (x *Exec) evalIdent(e *ast.Ident, st *State) (Value, types.Type) {
	switch e.Name {
	case "true":
		return boolLit(true), types.Typ[types.Bool]
	case "false":
		return boolLit(false), types.Typ[types.Bool]
	case "nil":
		return intLit(0), types.Typ[types.UntypedNil]
	}
	if x.contract {
		if q, ok := x.quant[e.Name]; ok {
			if q.Sort == SStr {
				return q, types.Typ[types.String]
			}
			return q, types.Typ[types.Int]
		}
		if v, ok := st.names[e.Name]; ok {
			var t types.Type
			if o := x.conScope[e.Name]; o != nil {
				t = o.Type()
			}
			if tt, ok := st.names["$type:"+e.Name]; ok {
				t = tt.(types.Type)
			}
			return v, t
		}
		// inside a literal verified in place, names denote what is in scope at the literal
		if x.litDepth > 0 || x.inlineLitPos.IsValid() {
			if sc := x.pkg.Types.Scope().Innermost(x.inlineLitPos); sc != nil && x.inlineLitPos.IsValid() {
				if _, o := sc.LookupParent(e.Name, x.inlineLitPos); o != nil {
					if _, isVar := o.(*types.Var); isVar {
						if v, ok := st.env[o]; ok {
							return v, o.Type()
						}
					}
				}
			}
		}
		if o := x.conScope[e.Name]; o != nil {
			// a variable captured by the unit (a literal or a block of an enclosing function) is the unit's
			// interface: it is what an untagged clause means, even when the body declares a local of the same
			// name later (g, found, err := ... in a case clause of cfg); [local:name] clauses mean the local
			if x.openCaptured && x.litPos.IsValid() && !x.localTags[e.Name] {
				if sc := x.pkg.Types.Scope().Innermost(x.litPos); sc != nil {
					if _, co := sc.LookupParent(e.Name, x.litPos); co != nil && co != o {
						if _, isVar := co.(*types.Var); isVar && co.Pkg() != nil && co.Parent() != co.Pkg().Scope() {
							return x.evalObject(co, st)
						}
					}
				}
			}
			if v, ok := st.env[o]; ok {
				return v, o.Type()
			}
		}
		// package-level object
		if o := x.pkg.Types.Scope().Lookup(e.Name); o != nil {
			return x.evalObject(o, st)
		}
		// a variable captured by the literal under verification
		if x.openCaptured && x.litPos.IsValid() {
			if sc := x.pkg.Types.Scope().Innermost(x.litPos); sc != nil {
				if _, o := sc.LookupParent(e.Name, x.litPos); o != nil {
					if _, isVar := o.(*types.Var); isVar {
						return x.evalObject(o, st)
					}
				}
			}
		}
		// spec constant (0-ary)
		if sig, ok := x.L.specs[e.Name]; ok && len(sig.Args) == 0 {
			return Term{e.Name, sig.Res}, nil
		}
		engineFail("contract of %s: unknown name %q", x.unit, e.Name)
	}
	o := x.info().ObjectOf(e)
	if o == nil {
		engineFail("unresolved identifier %s", e.Name)
	}
	if v, ok := st.env[o]; ok {
		return v, o.Type()
	}
	return x.evalObject(o, st)
}

func (x *Exec) evalObject(o types.Object, st *State) (Value, types.Type) {
	switch o := o.(type) {
	case *types.Var:
		if v, ok := st.env[o]; ok {
			return v, o.Type()
		}
		if o.Parent() == o.Pkg().Scope() || o.Pkg() != x.pkg.Types {
			s := x.sortOf(o.Type())
			v := x.heapGet(st, globalKey(o), s)
			x.tableAssume(st, o, v)
			if o.Pkg() == x.pkg.Types && s == SInt && x.L.globalNonNilError(o) {
				st.assume("(not (= " + v.S + " 0))") // var e = errors.New(...), never assigned: non-nil
			}
			return v, o.Type()
		}
		if x.openCaptured && x.capturedZero(o) {
			// declared without initialiser and never assigned anywhere: it holds its zero value
			v := x.zeroValue(st, o.Type())
			st.env[o] = v
			if st.old != nil {
				st.old.env[o] = v
			}
			return v, o.Type()
		}
		if x.openCaptured {
			// a variable captured by the literal under verification: arbitrary value of its type
			var v Value
			if x.isLocStruct(o.Type()) {
				r := x.declConst("cap_"+o.Name(), SInt)
				x.declare("(assert (> "+r.S+" 0))", "cap_pos_"+o.Name())
				v = r
			} else {
				t := x.declConst("cap_"+o.Name(), x.sortOf(o.Type()))
				x.rangeAssume(st, t, o.Type())
				if t.Sort == SInt && isRefType(o.Type()) {
					x.declare("(assert (>= "+t.S+" 0))", "cap_ref_"+o.Name()) // a captured handle exists before the closure runs
				}
				v = t
			}
			st.env[o] = v
			if st.old != nil {
				st.old.env[o] = v
			}
			return v, o.Type()
		}
		engineFail("variable %s has no value in the symbolic store (captured before definition?)", o.Name())
	case *types.Const:
		if t, ok := x.constTerm(o.Val(), o.Type()); ok {
			return t, o.Type()
		}
	case *types.Func:
		return &FuncV{Decl: o}, o.Type()
	case *types.Nil:
		return intLit(0), o.Type()
	}
	engineFail("unsupported object %v", o)
	return nil, nil
}

// tableAssume: a package-level map/slice variable initialised by a literal with constant
// entries and never assigned elsewhere denotes exactly that table.
func (x *Exec) tableAssume(st *State, o *types.Var, v Term) {
	tab := x.L.globalTable(o)
	if tab == nil {
		return
	}
	name := "tab_" + globalKey(o)
	if x.declared[name] {
		return
	}
	if at, ok := o.Type().Underlying().(*types.Array); ok {
		// keyed array literal of constants: element k is the listed value, the rest is zero
		es := x.sortOf(at.Elem())
		arr := "((as const " + string(arraySort(SInt, es)) + ") " + zeroOf(es).S + ")"
		for _, kv := range tab {
			k, ok1 := x.constTerm(kv[0], types.Typ[types.Int])
			vv, ok2 := x.constTerm(kv[1], at.Elem())
			if !ok1 || !ok2 {
				return
			}
			arr = "(store " + arr + " " + asIndex(k).S + " " + vv.S + ")"
		}
		se := x.heapGet(st, x.seKey(es, at.Elem()), arraySort(SInt, arraySort(SInt, es)))
		x.declare("(assert (= (select "+se.S+" "+v.S+") "+arr+"))", name)
		x.noteAssume("package-level table " + o.Name() + " is never assigned after its initialiser (checked syntactically)")
		return
	}
	mt, ok := o.Type().Underlying().(*types.Map)
	if !ok {
		return
	}
	ks, vs := x.sortOf(mt.Key()), x.sortOf(mt.Elem())
	has := "((as const " + string(arraySort(ks, SBool)) + ") false)"
	val := "((as const " + string(arraySort(ks, vs)) + ") " + zeroOf(vs).S + ")"
	for _, kv := range tab {
		k, _ := x.constTerm(kv[0], mt.Key())
		vv, _ := x.constTerm(kv[1], mt.Elem())
		has = "(store " + has + " " + k.S + " true)"
		val = "(store " + val + " " + k.S + " " + vv.S + ")"
	}
	hk, vk := x.mapKeys(ks, vs)
	a := x.heapGet(st, hk, arraySort(SInt, arraySort(ks, SBool)))
	b := x.heapGet(st, vk, arraySort(SInt, arraySort(ks, vs)))
	// the table is immutable: assert over the initial heap (valid while nobody writes that handle)
	x.declare("(assert (and (> "+v.S+" 0) (= (select "+a.S+" "+v.S+") "+has+") (= (select "+b.S+" "+v.S+") "+val+")))", name)
	x.noteAssume("package-level table " + o.Name() + " is never assigned after its initialiser (checked syntactically)")
}

func (x *Exec) evalSelector(e *ast.SelectorExpr, st *State) (Value, types.Type) {
	if !x.contract {
		if sel, ok := x.info().Selections[e]; ok {
			switch sel.Kind() {
			case types.FieldVal:
				v, t := x.eval(e.X, st)
				return x.walkFields(st, asTerm(v), t, sel.Index(), e)
			case types.MethodVal:
				v, _ := x.eval(e.X, st)
				return &FuncV{Decl: sel.Obj().(*types.Func), Recv: v}, sel.Type()
			}
			engineFail("unsupported selection %s", types.ExprString(e))
		}
		// qualified identifier
		o := x.info().ObjectOf(e.Sel)
		if o == nil {
			engineFail("unresolved selector %s", types.ExprString(e))
		}
		return x.evalObject(o, st)
	}
	// contract expression: pkg.Name or value.field
	if id, ok := e.X.(*ast.Ident); ok {
		if _, isVal := st.names[id.Name]; !isVal && x.conScope[id.Name] == nil && x.quant[id.Name].S == "" {
			for _, imp := range x.pkg.Types.Imports() {
				if imp.Name() == id.Name {
					o := imp.Scope().Lookup(e.Sel.Name)
					if o == nil {
						engineFail("contract: %s.%s not found", id.Name, e.Sel.Name)
					}
					return x.evalObject(o, st)
				}
			}
		}
	}
	v, t := x.eval(e.X, st)
	if t == nil {
		engineFail("contract: cannot select %s from untyped spec value", e.Sel.Name)
	}
	obj, idx, _ := types.LookupFieldOrMethod(t, true, x.pkg.Types, e.Sel.Name)
	fv, ok := obj.(*types.Var)
	if !ok {
		engineFail("contract: %s is not a field of %s", e.Sel.Name, t)
	}
	_ = fv
	return x.walkFields(st, asTerm(v), t, idx, nil)
}

func (x *Exec) walkFields(st *State, cur Term, t types.Type, path []int, at ast.Expr) (Value, types.Type) {
	for _, i := range path {
		if p, ok := t.Underlying().(*types.Pointer); ok {
			if at != nil {
				x.safety(st, "nil-deref", at, "(not (= "+cur.S+" 0))")
			}
			t = p.Elem()
		}
		s, ok := t.Underlying().(*types.Struct)
		if !ok {
			engineFail("field selection on non-struct %s", t)
		}
		f := s.Field(i)
		if x.isLocStruct(f.Type()) {
			cur = x.subRef(t, f, cur)
		} else {
			cur = x.fieldRead(st, t, f, cur)
		}
		t = f.Type()
	}
	return cur, t
}

func (x *Exec) safety(st *State, kind string, at ast.Expr, cond string) {
	if x.contract || (x.con != nil && x.con.Opts["safety"] == "off") {
		return
	}
	if x.con != nil && strings.Contains(x.con.Opts["safety"], ":") {
		// `opt safety = kind:text`: only the obligations of this kind on expressions containing the text
		kt := strings.SplitN(x.con.Opts["safety"], ":", 2)
		if kind != strings.TrimSpace(kt[0]) || !strings.Contains(types.ExprString(at), strings.TrimSpace(kt[1])) {
			return
		}
	}
	if x.allowPanic != "" {
		cond = or(cond, x.allowPanic)
	}
	x.oblige(st, "safe", kind+"@"+types.ExprString(at), cond, "")
}

func (x *Exec) evalUnary(e *ast.UnaryExpr, st *State) (Value, types.Type) {
	switch e.Op {
	case token.NOT:
		return Term{not(x.evalBool(e.X, st)), SBool}, types.Typ[types.Bool]
	case token.SUB:
		v, t := x.eval(e.X, st)
		a := asTerm(v)
		if a.Sort.isBV() {
			return Term{"(bvneg " + a.S + ")", a.Sort}, t
		}
		if isFloatType(t) {
			// a float is a handle: its negation is reflect's / the machine's own (sign flip: -(+0) is -0,
			// which 0 - x is not)
			return x.uf("fneg", SInt, a), t
		}
		if isComplexType(t) {
			return x.uf("cneg", SInt, a), t
		}
		return x.wrap(Term{"(- " + a.S + ")", SInt}, t), t
	case token.ADD:
		return x.eval(e.X, st)
	case token.XOR:
		v, t := x.eval(e.X, st)
		a := asTerm(v)
		if a.Sort.isBV() {
			return Term{"(bvnot " + a.S + ")", a.Sort}, t
		}
		return x.wrap(x.uf("bnotZ", SInt, a), t), t
	case token.AND:
		// address-of: composite literal or struct location
		if cl, ok := e.X.(*ast.CompositeLit); ok {
			v, t := x.evalComposite(cl, st)
			return v, types.NewPointer(t)
		}
		v, t := x.eval(e.X, st)
		if x.isLocStruct(t) {
			return v, types.NewPointer(t)
		}
		// address of a scalar location: opaque pointer tied to the expression
		return x.uf("addr_"+sanitize(types.ExprString(e.X)), SInt), types.NewPointer(t)
	case token.ARROW:
		v, t := x.eval(e.X, st)
		var et types.Type
		if c, ok := t.Underlying().(*types.Chan); ok {
			et = c.Elem()
		}
		r := x.fresh("recv", x.sortOf(et))
		_ = v
		return r, et
	}
	engineFail("unsupported unary operator %s", e.Op)
	return nil, nil
}

func (x *Exec) wrap(t Term, typ types.Type) Term {
	if x.mode != "wrap" || typ == nil || t.Sort != SInt {
		return t
	}
	b, ok := typ.Underlying().(*types.Basic)
	if !ok || b.Info()&types.IsInteger == 0 || b.Info()&types.IsUntyped != 0 {
		return t
	}
	w := intWidth(b)
	if isUnsigned(b) {
		return Term{fmt.Sprintf("(mod %s %s)", t.S, pow2(w)), SInt}
	}
	return Term{fmt.Sprintf("(- (mod (+ %s %s) %s) %s)", t.S, pow2(w-1), pow2(w), pow2(w-1)), SInt}
}

func (x *Exec) evalBinary(e *ast.BinaryExpr, st *State) (Value, types.Type) {
	switch e.Op {
	case token.LAND:
		a := x.evalBool(e.X, st)
		b := x.evalGuarded(e.Y, st, a)
		return Term{and(a, b), SBool}, types.Typ[types.Bool]
	case token.LOR:
		a := x.evalBool(e.X, st)
		b := x.evalGuarded(e.Y, st, not(a))
		return Term{or(a, b), SBool}, types.Typ[types.Bool]
	}
	lv, lt := x.eval(e.X, st)
	rv, rt := x.eval(e.Y, st)
	l, r := asTerm(lv), asTerm(rv)
	rtyp := lt
	if lt == nil || isUntyped(lt) {
		if rt != nil {
			rtyp = rt
		}
	}
	if !x.contract {
		if t := x.typeOf(e); t != nil {
			rtyp = t
		}
	}
	l, r = x.unifySorts(l, r)
	switch e.Op {
	case token.EQL, token.NEQ:
		var s string
		if x.isLocStruct(lt) && lt != nil {
			s = x.structEq(st, lt, l, r)
		} else {
			s = eq(l, r)
		}
		if e.Op == token.NEQ {
			s = not(s)
		}
		return Term{s, SBool}, types.Typ[types.Bool]
	case token.LSS, token.LEQ, token.GTR, token.GEQ:
		ops := map[token.Token][3]string{token.LSS: {"<", "str.<", "lt"}, token.LEQ: {"<=", "str.<=", "le"}, token.GTR: {">", "", "gt"}, token.GEQ: {">=", "", "ge"}}[e.Op]
		if l.Sort == SStr {
			switch e.Op {
			case token.LSS, token.LEQ:
				return Term{"(" + ops[1] + " " + l.S + " " + r.S + ")", SBool}, types.Typ[types.Bool]
			case token.GTR:
				return Term{"(str.< " + r.S + " " + l.S + ")", SBool}, types.Typ[types.Bool]
			default:
				return Term{"(str.<= " + r.S + " " + l.S + ")", SBool}, types.Typ[types.Bool]
			}
		}
		if l.Sort.isBV() {
			pre := "bvs"
			if b, ok := typeBasic(lt, rt); ok && isUnsigned(b) {
				pre = "bvu"
			}
			return Term{"(" + pre + ops[2] + " " + l.S + " " + r.S + ")", SBool}, types.Typ[types.Bool]
		}
		if isFloatType(lt) || isFloatType(rt) {
			return x.uf("f"+ops[2], SBool, l, r), types.Typ[types.Bool]
		}
		return Term{"(" + ops[0] + " " + l.S + " " + r.S + ")", SBool}, types.Typ[types.Bool]
	}
	if l.Sort == SStr {
		if e.Op == token.ADD {
			return Term{"(str.++ " + l.S + " " + r.S + ")", SStr}, rtyp
		}
		engineFail("unsupported string operator %s", e.Op)
	}
	if isFloatType(rtyp) || isComplexType(rtyp) {
		name := map[token.Token]string{token.ADD: "fadd", token.SUB: "fsub", token.MUL: "fmul", token.QUO: "fdiv"}[e.Op]
		if isComplexType(rtyp) {
			name = "c" + name[1:]
		}
		return x.uf(name, SInt, l, r), rtyp
	}
	if l.Sort.isBV() {
		return x.bvBinary(e, st, l, r, lt, rt, rtyp), rtyp
	}
	switch e.Op {
	case token.ADD:
		return x.wrap(Term{"(+ " + l.S + " " + r.S + ")", SInt}, rtyp), rtyp
	case token.SUB:
		return x.wrap(Term{"(- " + l.S + " " + r.S + ")", SInt}, rtyp), rtyp
	case token.MUL:
		if x.mode == "wrap" {
			return x.wrap(x.uf("mulZ", SInt, l, r), rtyp), rtyp
		}
		return Term{"(* " + l.S + " " + r.S + ")", SInt}, rtyp
	case token.QUO:
		x.safety(st, "div-zero", e, "(not (= "+r.S+" 0))")
		x.divPanic(st, r)
		if x.mode == "wrap" {
			return x.wrap(x.uf("tdivZ", SInt, l, r), rtyp), rtyp
		}
		return Term{"(tdiv " + l.S + " " + r.S + ")", SInt}, rtyp
	case token.REM:
		x.safety(st, "div-zero", e, "(not (= "+r.S+" 0))")
		x.divPanic(st, r)
		if x.mode == "wrap" {
			return x.wrap(x.uf("tmodZ", SInt, l, r), rtyp), rtyp
		}
		return Term{"(tmod " + l.S + " " + r.S + ")", SInt}, rtyp
	}
	if e.Op == token.SHL && isNumLit(l.S) && x.mode != "bv" {
		// constant << e over the integers: an explicit table for 0 <= e < 64
		t := "0"
		for k := 63; k >= 0; k-- {
			t = fmt.Sprintf("(ite (= %s %d) (* %s %s) %s)", r.S, k, l.S, pow2(k), t)
		}
		return x.wrap(Term{t, SInt}, rtyp), rtyp
	}
	if x.mode != "bv" {
		// bitwise operators over mathematical integers are kept uninterpreted (units that state
		// their semantics run in bit-vector mode)
		names := map[token.Token]string{token.AND: "bandZ", token.OR: "borZ", token.XOR: "bxorZ", token.AND_NOT: "bandnotZ", token.SHL: "bshlZ", token.SHR: "bshrZ"}
		if nm, ok := names[e.Op]; ok {
			x.noteAssume("bitwise operator " + e.Op.String() + " uninterpreted in integer mode")
			return x.wrap(x.uf(nm, SInt, l, r), rtyp), rtyp
		}
	}
	engineFail("operator %s on integers needs ints bv (%s)", e.Op, types.ExprString(e))
	return nil, nil
}

// divPanic: inside a run-time literal an integer division panics exactly when the divisor is zero;
// the statement forks on that condition.
func (x *Exec) divPanic(st *State, divisor Term) {
	if x.litDepth == 0 || x.contract {
		return
	}
	addPendingPanic(st, "(= "+divisor.S+" "+zeroOf(divisor.Sort).S+")", "integer divide by zero")
}

func typeBasic(ts ...types.Type) (*types.Basic, bool) {
	for _, t := range ts {
		if t == nil {
			continue
		}
		if b, ok := t.Underlying().(*types.Basic); ok && b.Info()&types.IsUntyped == 0 {
			return b, true
		}
	}
	return nil, false
}

func isUntyped(t types.Type) bool {
	b, ok := t.(*types.Basic)
	return ok && b.Info()&types.IsUntyped != 0
}

func isFloatType(t types.Type) bool {
	if t == nil {
		return false
	}
	b, ok := t.Underlying().(*types.Basic)
	return ok && b.Info()&types.IsFloat != 0
}

func isComplexType(t types.Type) bool {
	if t == nil {
		return false
	}
	b, ok := t.Underlying().(*types.Basic)
	return ok && b.Info()&types.IsComplex != 0
}

func (x *Exec) unifySorts(l, r Term) (Term, Term) {
	if l.Sort == r.Sort {
		return l, r
	}
	// an Int literal meeting a bit-vector: re-render the literal
	if l.Sort.isBV() && r.Sort == SInt {
		if b, ok := new(bigInt).SetString(strings.Trim(strings.TrimPrefix(r.S, "(- "), ")"), 10); ok {
			if strings.HasPrefix(r.S, "(- ") {
				b.Neg(b)
			}
			return l, bvLit(b, l.Sort.width())
		}
	}
	if r.Sort.isBV() && l.Sort == SInt {
		rr, ll := x.unifySorts(r, l)
		return ll, rr
	}
	engineFail("sort mismatch: %s : %s vs %s : %s", l.S, l.Sort, r.S, r.Sort)
	return l, r
}

func (x *Exec) bvBinary(e *ast.BinaryExpr, st *State, l, r Term, lt, rt, rtyp types.Type) Term {
	uns := false
	if b, ok := typeBasic(rtyp, lt); ok {
		uns = isUnsigned(b)
	}
	switch e.Op {
	case token.ADD:
		return Term{"(bvadd " + l.S + " " + r.S + ")", l.Sort}
	case token.SUB:
		return Term{"(bvsub " + l.S + " " + r.S + ")", l.Sort}
	case token.MUL:
		return Term{"(bvmul " + l.S + " " + r.S + ")", l.Sort}
	case token.AND:
		return Term{"(bvand " + l.S + " " + r.S + ")", l.Sort}
	case token.OR:
		return Term{"(bvor " + l.S + " " + r.S + ")", l.Sort}
	case token.XOR:
		return Term{"(bvxor " + l.S + " " + r.S + ")", l.Sort}
	case token.AND_NOT:
		return Term{"(bvand " + l.S + " (bvnot " + r.S + "))", l.Sort}
	case token.QUO, token.REM:
		x.safety(st, "div-zero", e, "(not (= "+r.S+" "+zeroOf(r.Sort).S+"))")
		x.divPanic(st, r)
		op := map[bool]map[token.Token]string{true: {token.QUO: "bvudiv", token.REM: "bvurem"}, false: {token.QUO: "bvsdiv", token.REM: "bvsrem"}}[uns][e.Op]
		return Term{"(" + op + " " + l.S + " " + r.S + ")", l.Sort}
	case token.SHL, token.SHR:
		// Go: count is any integer type; negative signed count panics; count >= width gives 0 / sign fill.
		cw, lw := r.Sort.width(), l.Sort.width()
		cuns := true
		if b, ok := typeBasic(rt); ok {
			cuns = isUnsigned(b)
		}
		if !cuns {
			x.safety(st, "negative-shift", e, "(bvsge "+r.S+" "+zeroOf(r.Sort).S+")")
		}
		// bring the count to the operand width, saturating
		var c string
		switch {
		case cw == lw:
			c = r.S
		case cw < lw:
			c = fmt.Sprintf("((_ zero_extend %d) %s)", lw-cw, r.S)
		default:
			c = fmt.Sprintf("(ite (bvuge %s (_ bv%d %d)) (_ bv%d %d) ((_ extract %d 0) %s))", r.S, lw, cw, lw, lw, lw-1, r.S)
		}
		op := "bvshl"
		if e.Op == token.SHR {
			op = "bvlshr"
			if !uns {
				op = "bvashr"
			}
		}
		return Term{"(" + op + " " + l.S + " " + c + ")", l.Sort}
	}
	engineFail("unsupported bit-vector operator %s", e.Op)
	return Term{}
}

func (x *Exec) structEq(st *State, t types.Type, a, b Term) string {
	s := t.Underlying().(*types.Struct)
	var cs []string
	for i := 0; i < s.NumFields(); i++ {
		f := s.Field(i)
		if x.isLocStruct(f.Type()) {
			cs = append(cs, x.structEq(st, f.Type(), x.subRef(t, f, a), x.subRef(t, f, b)))
		} else {
			cs = append(cs, eq(x.fieldRead(st, t, f, a), x.fieldRead(st, t, f, b)))
		}
	}
	return and(cs...)
}

// asIndex: slice/array indices and lengths are mathematical integers in every mode.
func asIndex(t Term) Term {
	if !t.Sort.isBV() {
		return t
	}
	var n, w int
	if _, err := fmt.Sscanf(t.S, "(_ bv%d %d)", &n, &w); err == nil {
		return intLit(int64(n))
	}
	return Term{"(bv2nat " + t.S + ")", SInt}
}

func (x *Exec) evalIndex(e *ast.IndexExpr, st *State) (Value, types.Type) {
	xv, xt := x.eval(e.X, st)
	iv, _ := x.eval(e.Index, st)
	base, idx := asTerm(xv), asTerm(iv)
	if _, isMap := xt.Underlying().(*types.Map); !isMap {
		idx = asIndex(idx)
	}
	if xt == nil {
		engineFail("index of untyped value %s", types.ExprString(e))
	}
	switch u := xt.Underlying().(type) {
	case *types.Basic: // string
		x.safety(st, "index", e, "(and (<= 0 "+idx.S+") (< "+idx.S+" (str.len "+base.S+")))")
		// a byte: represented by its code point
		return Term{"(str.to_code (str.at " + base.S + " " + idx.S + "))", SInt}, types.Typ[types.Byte]
	case *types.Slice:
		es := x.sortOf(u.Elem())
		x.safety(st, "index", e, "(and (<= 0 "+idx.S+") (< "+idx.S+" "+x.slen(base).S+"))")
		x.splitElemFact(base, idx)
		if es == SInt && isRefType(u.Elem()) {
			key := x.seKey(es, u.Elem())
			x.heapGet(newState(), key, arraySort(SInt, arraySort(SInt, es)))
			if !x.underBinder(base.S) && !x.underBinder(idx.S) {
				x.declare("(assert (>= (select (select "+key+"_0 "+base.S+") "+idx.S+") 0))", "ax_elem_"+base.S+":"+idx.S)
			} else {
				x.declare("(assert (forall ((h Int) (i Int)) (! (>= (select (select "+key+"_0 h) i) 0) :pattern ((select (select "+key+"_0 h) i)))))", "ax_elem_all_"+key)
			}
		}
		return Term{"(select " + x.sliceArr(st, base, es, u.Elem()).S + " " + idx.S + ")", es}, u.Elem()
	case *types.Array:
		es := x.sortOf(u.Elem())
		x.safety(st, "index", e, fmt.Sprintf("(and (<= 0 %s) (< %s %d))", idx.S, idx.S, u.Len()))
		return Term{"(select " + x.sliceArr(st, base, es, u.Elem()).S + " " + idx.S + ")", es}, u.Elem()
	case *types.Map:
		ks, vs := x.sortOf(u.Key()), x.sortOf(u.Elem())
		has := Term{"(select " + x.mapHas(st, base, ks, vs).S + " " + idx.S + ")", SBool}
		val := Term{"(select " + x.mapVal(st, base, ks, vs).S + " " + idx.S + ")", vs}
		return ite(and("(not (= "+base.S+" 0))", has.S), val, zeroOf(vs)), u.Elem()
	case *types.Pointer:
		if a, ok := u.Elem().Underlying().(*types.Array); ok {
			es := x.sortOf(a.Elem())
			return Term{"(select " + x.sliceArr(st, base, es, a.Elem()).S + " " + idx.S + ")", es}, a.Elem()
		}
	}
	engineFail("unsupported index expression %s on %s", types.ExprString(e), xt)
	return nil, nil
}

func (x *Exec) evalSlice(e *ast.SliceExpr, st *State) (Value, types.Type) {
	xv, xt := x.eval(e.X, st)
	base := asTerm(xv)
	lo := intLit(0)
	if e.Low != nil {
		lo = x.evalT(e.Low, st)
	}
	if base.Sort == SStr {
		hi := Term{"(str.len " + base.S + ")", SInt}
		if e.High != nil {
			hi = x.evalT(e.High, st)
		}
		x.safety(st, "slice", e, "(and (<= 0 "+lo.S+") (<= "+lo.S+" "+hi.S+") (<= "+hi.S+" (str.len "+base.S+")))")
		return Term{"(str.substr " + base.S + " " + lo.S + " (- " + hi.S + " " + lo.S + "))", SStr}, xt
	}
	sl, ok := xt.Underlying().(*types.Slice)
	blen := x.slen(base)
	if !ok {
		// slicing an array (or a pointer to one): a slice over the same elements
		at, isArr := xt.Underlying().(*types.Array)
		if pt, isPtr := xt.Underlying().(*types.Pointer); isPtr {
			at, isArr = pt.Elem().Underlying().(*types.Array)
		}
		if !isArr {
			engineFail("unsupported slice expression on %s", xt)
		}
		sl = types.NewSlice(at.Elem())
		xt = sl
		blen = intLit(at.Len())
	}
	es := x.sortOf(sl.Elem())
	hi := blen
	if e.High != nil {
		hi = x.evalT(e.High, st)
	}
	// bound is cap(s) in Go; len(s) is used (stricter: a proof obligation, not an assumption)
	x.safety(st, "slice", e, "(and (<= 0 "+lo.S+") (<= "+lo.S+" "+hi.S+") (<= "+hi.S+" "+blen.S+"))")
	n := Term{"(- " + hi.S + " " + lo.S + ")", SInt}
	if lo.S == "0" {
		arr := x.sliceArr(st, base, es, sl.Elem())
		return x.newSlice(st, n, es, &arr, sl.Elem()), xt
	}
	dstArr := x.fresh("sliced", arraySort(SInt, es))
	h := x.newSlice(st, n, es, &dstArr, sl.Elem())
	src := x.sliceArr(st, base, es, sl.Elem())
	dst := dstArr
	st.assume(fmt.Sprintf("(forall ((i Int)) (! (= (select %s i) (select %s (+ i %s))) :pattern ((select %s i))))", dst.S, src.S, lo.S, dst.S))
	x.noteAssume("slicing s[a:b] with a != 0 yields a snapshot (aliasing with the operand's backing array is not modelled)")
	return h, xt
}

func (x *Exec) evalComposite(e *ast.CompositeLit, st *State) (Value, types.Type) {
	t := x.typeOf(e)
	if t == nil {
		engineFail("composite literal without type")
	}
	if pt, ok := t.Underlying().(*types.Pointer); ok {
		// an element of a []*T literal written without &T: the pointer to a new struct
		if _, isStruct := pt.Elem().Underlying().(*types.Struct); isStruct {
			t = pt.Elem()
		}
	}
	switch u := t.Underlying().(type) {
	case *types.Struct:
		if !x.isLocStruct(t) {
			return x.fresh("opaque", SInt), t
		}
		r := x.newRef(st, "obj")
		set := map[int]bool{}
		for i, el := range e.Elts {
			var f *types.Var
			var fi int
			var ve ast.Expr
			if kv, ok := el.(*ast.KeyValueExpr); ok {
				name := kv.Key.(*ast.Ident).Name
				for j := 0; j < u.NumFields(); j++ {
					if u.Field(j).Name() == name {
						f, fi = u.Field(j), j
					}
				}
				ve = kv.Value
			} else {
				f, fi, ve = u.Field(i), i, el
			}
			set[fi] = true
			v, vt := x.eval(ve, st)
			if x.isLocStruct(f.Type()) {
				x.copyStruct(st, vt, x.subRef(t, f, r), asTerm(v))
			} else if fv, ok := v.(*FuncV); ok {
				_ = fv
				x.fieldWrite(st, t, f, r, x.fresh("fn", SInt))
			} else {
				x.fieldWrite(st, t, f, r, asTerm(v))
			}
		}
		for j := 0; j < u.NumFields(); j++ {
			if set[j] {
				continue
			}
			f := u.Field(j)
			if x.isLocStruct(f.Type()) {
				x.zeroFields(st, x.subRef(t, f, r), f.Type())
			} else {
				x.fieldWrite(st, t, f, r, zeroOf(x.sortOf(f.Type())))
			}
		}
		return r, t
	case *types.Slice:
		es := x.sortOf(u.Elem())
		arr := Term{"((as const " + string(arraySort(SInt, es)) + ") " + zeroOf(es).S + ")", arraySort(SInt, es)}
		for i, el := range e.Elts {
			if _, ok := el.(*ast.KeyValueExpr); ok {
				engineFail("keyed slice literal unsupported")
			}
			v := x.evalT(el, st)
			arr = Term{fmt.Sprintf("(store %s %d %s)", arr.S, i, v.S), arr.Sort}
		}
		if x.isLocStruct(u.Elem()) && len(e.Elts) > 0 {
			// the elements are variables of their own holding copies of the listed values
			arr = x.structElems(st, u.Elem(), intLit(int64(len(e.Elts))), &arr)
		}
		return x.newSlice(st, intLit(int64(len(e.Elts))), es, &arr, u.Elem()), t
	case *types.Map:
		ks, vs := x.sortOf(u.Key()), x.sortOf(u.Elem())
		has := Term{"((as const " + string(arraySort(ks, SBool)) + ") false)", arraySort(ks, SBool)}
		val := Term{"((as const " + string(arraySort(ks, vs)) + ") " + zeroOf(vs).S + ")", arraySort(ks, vs)}
		for _, el := range e.Elts {
			kv := el.(*ast.KeyValueExpr)
			k, v := x.evalT(kv.Key, st), x.evalT(kv.Value, st)
			has = Term{"(store " + has.S + " " + k.S + " true)", has.Sort}
			val = Term{"(store " + val.S + " " + k.S + " " + v.S + ")", val.Sort}
		}
		m := x.newRef(st, "map")
		x.mapSet(st, m, ks, vs, has, val)
		return m, t
	}
	engineFail("unsupported composite literal of type %s", t)
	return nil, nil
}

// ---------------------------------------------------------------------------------------------
// helpers for sorted iteration

func sortedKeys(m map[string]bool) []string {
	var ks []string
	for k := range m {
		ks = append(ks, k)
	}
	sort.Strings(ks)
	return ks
}

// capturedZero: a local variable declared `var v T` (no initialiser) that is never assigned, incremented
// or has its address taken in its function: every closure that captures it sees the zero value.
func (x *Exec) capturedZero(o *types.Var) bool {
	if o.Pkg() == nil || o.Parent() == o.Pkg().Scope() {
		return false
	}
	info := x.info()
	for _, f := range x.pkg.Syntax {
		if !(f.Pos() <= o.Pos() && o.Pos() < f.End()) {
			continue
		}
		var fd *ast.FuncDecl
		for _, d := range f.Decls {
			if d2, ok := d.(*ast.FuncDecl); ok && d2.Pos() <= o.Pos() && o.Pos() < d2.End() {
				fd = d2
			}
		}
		if fd == nil || fd.Body == nil {
			return false
		}
		declared, written := false, false
		ast.Inspect(fd.Body, func(n ast.Node) bool {
			switch n := n.(type) {
			case *ast.ValueSpec:
				for _, id := range n.Names {
					if info.Defs[id] == o && len(n.Values) == 0 {
						declared = true
					}
				}
			case *ast.AssignStmt:
				for _, l := range n.Lhs {
					if rootObj(info, l) == o {
						written = true
					}
				}
			case *ast.IncDecStmt:
				if rootObj(info, n.X) == o {
					written = true
				}
			case *ast.UnaryExpr:
				if n.Op == token.AND && rootObj(info, n.X) == o {
					written = true
				}
			case *ast.RangeStmt:
				if n.Key != nil && rootObj(info, n.Key) == o || n.Value != nil && rootObj(info, n.Value) == o {
					written = true
				}
			case *ast.CallExpr:
				// a method with a pointer receiver called on the variable takes its address
				if se, ok := n.Fun.(*ast.SelectorExpr); ok && rootObj(info, se.X) == o {
					if fn, ok := info.ObjectOf(se.Sel).(*types.Func); ok {
						if sig, ok := fn.Type().(*types.Signature); ok && sig.Recv() != nil {
							if _, isPtr := sig.Recv().Type().(*types.Pointer); isPtr {
								written = true
							}
						}
					}
				}
			}
			return true
		})
		return declared && !written
	}
	return false
}
