package main

import (
	"bytes"
	"encoding/json"
	"fmt"
	"os"
	"os/exec"
	"path/filepath"
	"regexp"
	"strconv"
	"strings"
)

type ReplayFile struct {
	Property   string `json:"property"`
	Obligation string `json:"obligation"`
	Clause     string `json:"clause,omitempty"`
	Status     string `json:"solver_status"`
	Solver     string `json:"solver"`
	SolverOut  string `json:"solver_output"`
	Pkg        string `json:"package,omitempty"`
	TestSrc    string `json:"test_source,omitempty"`
	Output     string `json:"replay_output,omitempty"`
	Confirmed  bool   `json:"confirmed"`
	Note       string `json:"note,omitempty"`
	Path       string `json:"-"`
}

var placeholderRx = regexp.MustCompile(`\$\{([^}]+)\}`)

// replayObligation writes the replay file of a failed obligation and, when the solver
// produced a model and the contract carries a replay template, runs the real code on it.
func (r *Run) replayObligation(o *Obligation) *ReplayFile {
	rf := &ReplayFile{Property: r.Prop, Obligation: o.Name, Clause: o.Src, Status: o.Res.Status, Solver: o.Res.Solver, SolverOut: trunc(o.Res.Model+o.Res.Raw, 4000)}
	rf.Path = filepath.Join(r.Verif, "replays", sanitize(o.Name)+".json")
	defer func() {
		data, _ := json.MarshalIndent(rf, "", " ")
		os.WriteFile(rf.Path, append(data, '\n'), 0o644)
	}()
	if o.Backend == "frame-checker" || o.Backend == "ground-evaluator" {
		// decided by the generator itself: the witness is the offending site/entry, already concrete
		rf.Confirmed = o.Res.Status == "sat"
		rf.Note = "decided on the concrete source text by " + o.Backend + "; the witness names the offending site"
		return rf
	}
	if o.Res.Status != "sat" || o.replay == nil {
		// a fixed scenario registered for this obligation?
		if out, ok := runScenarios(r.Repo, r.Verif, []string{o.Name}); ok && strings.Contains(out, "REPLAY-MISMATCH "+o.Name) {
			rf.Confirmed = true
			rf.Output = trunc(out, 3000)
			rf.Pkg = "interp"
			rf.Note = "fixed scenario of /verif/replays/helpers run against the real code"
			return rf
		}
		rf.Note = "no model or no replay template: obligation reported without a failing input"
		return rf
	}
	src, pkgDir, err := r.instantiateReplay(o)
	if err != nil {
		rf.Note = "replay template could not be instantiated: " + err.Error()
		return rf
	}
	rf.TestSrc = src
	rf.Pkg = pkgDir
	out, err := runOverlayTest(r.Repo, pkgDir, src, r.Verif)
	rf.Output = trunc(out, 4000)
	if err != nil && !strings.Contains(out, "REPLAY-") {
		rf.Note = "replay did not run: " + err.Error()
		return rf
	}
	// a panic of the replayed code confirms a no-panic obligation; for any other obligation it only says
	// that the template does not fit the model (e.g. a cell the template was not written for)
	rf.Confirmed = strings.Contains(out, "REPLAY-MISMATCH") || (strings.Contains(out, "REPLAY-PANIC") && strings.Contains(o.Name, "/safe:"))
	if !rf.Confirmed {
		if sout, ok := runScenarios(r.Repo, r.Verif, []string{o.Name}); ok && strings.Contains(sout, "REPLAY-MISMATCH "+o.Name) {
			rf.Confirmed = true
			rf.Output = trunc(sout, 3000)
			rf.Pkg = "interp"
			rf.TestSrc = ""
			rf.Note = "fixed scenario of /verif/replays/helpers run against the real code (the model-instantiated template did not reproduce)"
		}
	}
	return rf
}

// instantiateReplay queries the model values of the template's placeholders.
func (r *Run) instantiateReplay(o *Obligation) (src string, pkgDir string, err error) {
	rs := o.replay
	lines := rs.Lines
	pkgDir = "interp"
	var body []string
	var imports []string
	for _, l := range lines {
		switch {
		case strings.HasPrefix(l, "pkg "):
			pkgDir = strings.TrimSpace(strings.TrimPrefix(l, "pkg "))
		case strings.HasPrefix(l, "assume "):
			continue
		case strings.HasPrefix(l, "import "):
			imports = append(imports, strings.TrimSpace(strings.TrimPrefix(l, "import ")))
		default:
			body = append(body, l)
		}
	}
	text := strings.Join(body, "\n")
	type ph struct{ kind, name string }
	var phs []ph
	seen := map[string]bool{}
	for _, m := range placeholderRx.FindAllStringSubmatch(text, -1) {
		if seen[m[1]] {
			continue
		}
		seen[m[1]] = true
		kind, name := "", m[1]
		if i := strings.Index(name, ":"); i > 0 {
			kind, name = name[:i], name[i+1:]
		}
		phs = append(phs, ph{kind, name})
	}
	// build get-value query
	var terms []string
	for _, p := range phs {
		t, ok := rs.Vals[p.name]
		if !ok {
			return "", "", fmt.Errorf("placeholder %q has no term", p.name)
		}
		if p.kind == "strs" {
			terms = append(terms, "(slen "+t+")")
			for i := 0; i < 6; i++ {
				terms = append(terms, fmt.Sprintf("(select (select %s %s) %d)", rs.Vals["$SE_String"], t, i))
			}
		} else {
			terms = append(terms, t)
		}
	}
	o.getValues = terms
	o.extraAsserts = rs.Assumes
	script := o.script(r.L.prelude)
	res := Solve(script, r.Tmo, false)
	if res.Status != "sat" && len(rs.Assumes) > 0 {
		o.extraAsserts = nil
		res = Solve(o.script(r.L.prelude), r.Tmo, false)
	}
	o.extraAsserts = nil
	if res.Status != "sat" {
		return "", "", fmt.Errorf("model query returned %s", res.Status)
	}
	vals := parseGetValue(res.Model)
	if len(vals) < len(terms) {
		return "", "", fmt.Errorf("could not parse model values: %s", trunc(res.Model, 300))
	}
	o.Res.Model = res.Model
	k := 0
	repl := map[string]string{}
	for _, p := range phs {
		key := p.name
		if p.kind != "" {
			key = p.kind + ":" + p.name
		}
		if p.kind == "strs" {
			n, _ := strconv.Atoi(vals[k])
			if n > 6 {
				return "", "", fmt.Errorf("model slice too long for replay (%d)", n)
			}
			var xs []string
			for i := 0; i < n; i++ {
				xs = append(xs, smtStringToGo(vals[k+1+i]))
			}
			repl[key] = "[]string{" + strings.Join(xs, ", ") + "}"
			k += 7
			continue
		}
		v := vals[k]
		k++
		switch {
		case strings.HasPrefix(v, "\""):
			repl[key] = smtStringToGo(v)
		case v == "true" || v == "false":
			repl[key] = v
		default:
			repl[key] = smtIntToGo(v)
		}
	}
	text = placeholderRx.ReplaceAllStringFunc(text, func(m string) string { return repl[m[2:len(m)-1]] })
	var b strings.Builder
	pkgName := filepath.Base(pkgDir)
	fmt.Fprintf(&b, "package %s\n\nimport (\n\t\"fmt\"\n\t\"testing\"\n", pkgName)
	for _, im := range imports {
		fmt.Fprintf(&b, "\t%s\n", im)
	}
	b.WriteString(")\n\nfunc TestZZVerifReplay(t *testing.T) {\n\tdefer func() {\n\t\tif r := recover(); r != nil {\n\t\t\tfmt.Printf(\"REPLAY-PANIC: %v\\n\", r)\n\t\t}\n\t}()\n")
	for _, l := range strings.Split(text, "\n") {
		b.WriteString("\t" + l + "\n")
	}
	b.WriteString("}\n")
	return b.String(), pkgDir, nil
}

// parseGetValue extracts the value parts of a (get-value) answer: ((t v) (t v) ...).
func parseGetValue(s string) []string {
	toks := sexprTokens(s)
	// find the outermost list, then each pair (term value)
	var vals []string
	i := 0
	for i < len(toks) && toks[i] != "(" {
		i++
	}
	i++
	for i < len(toks) && toks[i] == "(" {
		// read term
		i++
		_, i = readSexpr(toks, i)
		v, ni := readSexpr(toks, i)
		vals = append(vals, v)
		i = ni
		i++ // ")"
	}
	return vals
}

func readSexpr(toks []string, i int) (string, int) {
	if i >= len(toks) {
		return "", i
	}
	if toks[i] != "(" {
		return toks[i], i + 1
	}
	d := 0
	var parts []string
	for i < len(toks) {
		if toks[i] == "(" {
			d++
		}
		if toks[i] == ")" {
			d--
		}
		parts = append(parts, toks[i])
		i++
		if d == 0 {
			break
		}
	}
	return strings.Join(parts, " "), i
}

func smtIntToGo(v string) string {
	v = strings.TrimSpace(v)
	if strings.HasPrefix(v, "( -") || strings.HasPrefix(v, "(-") {
		v = strings.Trim(v, "() ")
		v = strings.TrimSpace(strings.TrimPrefix(v, "-"))
		return "-" + v
	}
	if strings.HasPrefix(v, "#x") {
		n, _ := strconv.ParseUint(v[2:], 16, 64)
		return strconv.FormatUint(n, 10)
	}
	if strings.HasPrefix(v, "#b") {
		n, _ := strconv.ParseUint(v[2:], 2, 64)
		return strconv.FormatUint(n, 10)
	}
	return v
}

var uEscRx = regexp.MustCompile(`\\u\{([0-9a-fA-F]+)\}|\\u([0-9a-fA-F]{4})|\\x([0-9a-fA-F]{2})`)

func smtStringToGo(v string) string {
	v = strings.TrimSpace(v)
	if len(v) >= 2 && v[0] == '"' {
		v = v[1 : len(v)-1]
	}
	v = strings.ReplaceAll(v, "\"\"", "\"")
	var b strings.Builder
	last := 0
	for _, m := range uEscRx.FindAllStringSubmatchIndex(v, -1) {
		b.WriteString(v[last:m[0]])
		hex := ""
		for g := 1; g <= 3; g++ {
			if m[2*g] >= 0 {
				hex = v[m[2*g]:m[2*g+1]]
			}
		}
		n, _ := strconv.ParseUint(hex, 16, 32)
		if n < 256 {
			b.WriteByte(byte(n))
		} else {
			b.WriteRune(rune(n))
		}
		last = m[1]
	}
	b.WriteString(v[last:])
	return strconv.Quote(b.String())
}

// runOverlayTest injects src as an in-package test via -overlay and runs it against the real code.
func runOverlayTest(repo, pkgDir, src, verif string) (string, error) {
	tmp, err := os.MkdirTemp("", "govc-replay-")
	if err != nil {
		return "", err
	}
	defer os.RemoveAll(tmp)
	testFile := filepath.Join(tmp, "zz_verif_replay_test.go")
	if err := os.WriteFile(testFile, []byte(src), 0o644); err != nil {
		return "", err
	}
	ov := map[string]map[string]string{"Replace": {filepath.Join(repo, pkgDir, "zz_verif_replay_test.go"): testFile}}
	// optional helper file with native oracles
	pkgName := filepath.Base(pkgDir)
	helpers, _ := filepath.Glob(filepath.Join(verif, "replays", "helpers", pkgName+"_*_test.go"))
	for _, h := range helpers {
		ov["Replace"][filepath.Join(repo, pkgDir, "zz_verif_"+filepath.Base(h))] = h
	}
	ovData, _ := json.Marshal(ov)
	ovFile := filepath.Join(tmp, "overlay.json")
	os.WriteFile(ovFile, ovData, 0o644)
	cmd := exec.Command("go", "test", "-overlay", ovFile, "-vet=off", "-count=1", "-timeout", "60s", "-run", "TestZZVerifReplay$", "-v", "./"+pkgDir+"/")
	cmd.Dir = repo
	cmd.Env = append(os.Environ(), "GOFLAGS=-mod=mod", "GOPROXY=off", "GOSUMDB=off", "GOTOOLCHAIN=local")
	var out bytes.Buffer
	cmd.Stdout = &out
	cmd.Stderr = &out
	err = cmd.Run()
	return out.String(), err
}

// runScenarios runs the helper package's scenario runner for the given obligations.
// runPropertyScenarios runs every scenario registered for the property once (thorough tier).
func runPropertyScenarios(repo, verif, prop string) (string, bool) {
	return runScenariosEnv(repo, verif, "VERIF_SCENARIO_PROP="+prop, "300s")
}

func runScenarios(repo, verif string, obligations []string) (string, bool) {
	return runScenariosEnv(repo, verif, "VERIF_OBLIGATIONS="+strings.Join(obligations, "\n"), "120s")
}

func runScenariosEnv(repo, verif string, env string, timeout string) (string, bool) {
	helpers, _ := filepath.Glob(filepath.Join(verif, "replays", "helpers", "interp_*_test.go"))
	if len(helpers) == 0 {
		return "", false
	}
	tmp, err := os.MkdirTemp("", "govc-scn-")
	if err != nil {
		return "", false
	}
	defer os.RemoveAll(tmp)
	ov := map[string]map[string]string{"Replace": {}}
	for _, h := range helpers {
		ov["Replace"][filepath.Join(repo, "interp", "zz_verif_"+filepath.Base(h))] = h
	}
	data, _ := json.Marshal(ov)
	ovFile := filepath.Join(tmp, "overlay.json")
	os.WriteFile(ovFile, data, 0o644)
	cmd := exec.Command("go", "test", "-overlay", ovFile, "-vet=off", "-count=1", "-timeout", timeout, "-run", "TestZZVerifScenario$", "-v", "./interp/")
	cmd.Dir = repo
	cmd.Env = append(os.Environ(), "GOFLAGS=-mod=mod", "GOPROXY=off", "GOSUMDB=off", "GOTOOLCHAIN=local", env)
	var out bytes.Buffer
	cmd.Stdout = &out
	cmd.Stderr = &out
	cmd.Run()
	return out.String(), true
}

func cmdReplay(path, repo string) int {
	data, err := os.ReadFile(path)
	if err != nil {
		fmt.Fprintln(os.Stderr, err)
		return 2
	}
	var rf ReplayFile
	if err := json.Unmarshal(data, &rf); err != nil {
		fmt.Fprintln(os.Stderr, err)
		return 2
	}
	fmt.Printf("obligation: %s\nclause: %s\nsolver: %s %s\n%s\n", rf.Obligation, rf.Clause, rf.Solver, rf.Status, rf.SolverOut)
	if rf.TestSrc == "" {
		fmt.Println("no executable replay recorded:", rf.Note)
		return 0
	}
	out, _ := runOverlayTest(repo, rf.Pkg, rf.TestSrc, "/verif")
	fmt.Println(out)
	if strings.Contains(out, "REPLAY-MISMATCH") || strings.Contains(out, "REPLAY-PANIC") {
		fmt.Printf("VIOLATION property=%s replay=%s\n", rf.Property, path)
		return 1
	}
	return 0
}
