package interp

import (
	"os"
	"os/exec"
	"testing"

	"github.com/traefik/yaegi/stdlib"
)

func osexecCommand(name string, args ...string) *exec.Cmd { return exec.Command(name, args...) }
func osArgs0() string                                      { return os.Args[0] }
func osEnviron() []string                                  { return os.Environ() }

// TestZZVerifChild evaluates VERIF_CHILD_SRC in a fresh interpreter with the default symbols.
func TestZZVerifChild(t *testing.T) {
	src := os.Getenv("VERIF_CHILD_SRC")
	if src == "" {
		return
	}
	i := New(Options{})
	if err := i.Use(stdlib.Symbols); err != nil {
		t.Fatal(err)
	}
	if _, err := i.Eval(src); err != nil {
		println("EVAL-ERROR:", err.Error())
	}
}
