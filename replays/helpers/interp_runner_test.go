package interp

import (
	"fmt"
	"os"
	"strings"
	"testing"
)

// TestZZVerifScenario runs the hand-written witness or scenario registered for the obligations
// named in VERIF_OBLIGATIONS (newline separated; empty = all) against the real code.
func TestZZVerifScenario(t *testing.T) {
	want := map[string]bool{}
	for _, o := range strings.Split(os.Getenv("VERIF_OBLIGATIONS"), "\n") {
		if o = strings.TrimSpace(o); o != "" {
			want[o] = true
		}
	}
	sel := func(o string) bool { return len(want) == 0 || want[o] }
	for _, w := range verifC17Witnesses {
		if !sel(w.Obligation) {
			continue
		}
		got, exp := w.Run()
		if fmt.Sprint(got) != fmt.Sprint(exp) {
			fmt.Printf("REPLAY-MISMATCH %s — real code: %v, reference: %v\n", w.Obligation, got, exp)
		} else {
			fmt.Printf("REPLAY-OK %s\n", w.Obligation)
		}
	}
	for _, s := range verifProtocolScenarios {
		if !sel(s.Obligation) {
			continue
		}
		ok, d := s.Run()
		if ok {
			fmt.Printf("REPLAY-MISMATCH %s — %s\n", s.Obligation, d)
		} else {
			fmt.Printf("REPLAY-OK %s — %s\n", s.Obligation, d)
		}
	}
}
