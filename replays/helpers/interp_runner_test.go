package interp

import (
	"fmt"
	"os"
	"strings"
	"testing"
)

// TestZZVerifScenario runs the hand-written witness or scenario registered for the obligations
// named in VERIF_OBLIGATIONS (newline separated; empty = all) against the real code.
func TestZZVerifScenario(t *testing.T) {
	if prop := os.Getenv("VERIF_SCENARIO_PROP"); prop != "" {
		// every scenario registered for the property, once, under its own key
		for _, w := range verifC17Witnesses {
			if !strings.HasPrefix(w.Obligation, prop+"/") {
				continue
			}
			got, exp := w.Run()
			if fmt.Sprint(got) != fmt.Sprint(exp) {
				fmt.Printf("SCENARIO-MISMATCH %s — real code: %v, reference: %v\n", w.Obligation, got, exp)
			} else {
				fmt.Printf("SCENARIO-OK %s\n", w.Obligation)
			}
		}
		for _, s := range verifProtocolScenarios {
			if !strings.HasPrefix(s.Obligation, prop+"/") {
				continue
			}
			bad, d := s.Run()
			if bad {
				fmt.Printf("SCENARIO-MISMATCH %s — %s\n", s.Obligation, d)
			} else {
				fmt.Printf("SCENARIO-OK %s — %s\n", s.Obligation, d)
			}
		}
		return
	}
	want := map[string]bool{}
	for _, o := range strings.Split(os.Getenv("VERIF_OBLIGATIONS"), "\n") {
		if o = strings.TrimSpace(o); o != "" {
			want[o] = true
		}
	}
	sel := func(o string) bool { return len(want) == 0 || want[o] }
	for _, w := range verifC17Witnesses {
		if !sel(w.Obligation) {
			continue
		}
		got, exp := w.Run()
		if fmt.Sprint(got) != fmt.Sprint(exp) {
			fmt.Printf("REPLAY-MISMATCH %s — real code: %v, reference: %v\n", w.Obligation, got, exp)
		} else {
			fmt.Printf("REPLAY-OK %s\n", w.Obligation)
		}
	}
	for _, s := range verifProtocolScenarios {
		// a scenario named "prefix*" stands for every obligation with that prefix
		var names []string
		if strings.HasSuffix(s.Obligation, "*") {
			pre := strings.TrimSuffix(s.Obligation, "*")
			for o := range want {
				if strings.HasPrefix(o, pre) {
					names = append(names, o)
				}
			}
			if len(want) == 0 {
				names = []string{s.Obligation}
			}
		} else if sel(s.Obligation) {
			names = []string{s.Obligation}
		}
		if len(names) == 0 {
			continue
		}
		ok, d := s.Run()
		for _, n := range names {
			if ok {
				fmt.Printf("REPLAY-MISMATCH %s — %s\n", n, d)
			} else {
				fmt.Printf("REPLAY-OK %s — %s\n", n, d)
			}
		}
	}
}
