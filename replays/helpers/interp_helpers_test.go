package interp

// Native oracles for replaying refuted C17 obligations against the real code.
// Injected next to the package's tests with `go test -overlay`; never written into /repo.

import (
	"fmt"
	"go/build"
	"go/build/constraint"
	"io"
	"strings"
)

var verifUnixOS = map[string]bool{"aix": true, "android": true, "darwin": true, "dragonfly": true, "freebsd": true, "hurd": true,
	"illumos": true, "ios": true, "linux": true, "netbsd": true, "openbsd": true, "solaris": true}

// verifMatchTag is go/build's (*Context).matchTag (go1.23), which is unexported.
func verifMatchTag(ctxt *build.Context, name string) bool {
	if ctxt.CgoEnabled && name == "cgo" {
		return true
	}
	if name == ctxt.GOOS || name == ctxt.GOARCH || name == ctxt.Compiler {
		return true
	}
	if ctxt.GOOS == "android" && name == "linux" {
		return true
	}
	if ctxt.GOOS == "illumos" && name == "solaris" {
		return true
	}
	if ctxt.GOOS == "ios" && name == "darwin" {
		return true
	}
	if name == "unix" && verifUnixOS[ctxt.GOOS] {
		return true
	}
	if name == "boringcrypto" {
		name = "goexperiment.boringcrypto"
	}
	for _, l := range [][]string{ctxt.BuildTags, ctxt.ToolTags, ctxt.ReleaseTags} {
		for _, t := range l {
			if t == name {
				return true
			}
		}
	}
	return false
}

func verifReleaseTags(n int) []string {
	var r []string
	for i := 1; i <= n; i++ {
		r = append(r, fmt.Sprintf("go1.%d", i))
	}
	return r
}

// verifPlusBuildTerm evaluates one comma-separated term of a "+build" line with go/build/constraint.
func verifPlusBuildTerm(ctxt *build.Context, s string) bool {
	if strings.ContainsAny(s, " ,\t\n") {
		panic("not a single term: " + s)
	}
	x, err := constraint.Parse("// +build " + s)
	if err != nil {
		// an empty term list: constraint.Parse rejects nothing for +build; keep go/build's reading
		return verifMatchTag(ctxt, "ignore")
	}
	return x.Eval(func(tag string) bool { return verifMatchTag(ctxt, tag) })
}

// verifPlusBuildLine evaluates a whole comment line (without the // marker).
func verifPlusBuildLine(ctxt *build.Context, line string) bool {
	if !constraint.IsPlusBuild("//" + line) {
		return true
	}
	x, err := constraint.Parse("//" + line)
	if err != nil {
		return true
	}
	return x.Eval(func(tag string) bool { return verifMatchTag(ctxt, tag) })
}

// verifSkipFile is the file-name part of go/build's MatchFile, plus the test-file rule.
func verifSkipFile(ctxt *build.Context, name string, skipTest bool) bool {
	c := *ctxt
	c.OpenFile = func(string) (io.ReadCloser, error) { return io.NopCloser(strings.NewReader("package p\n")), nil }
	ok, err := c.MatchFile("/verif-replay", name)
	if err != nil {
		return true
	}
	if !strings.HasSuffix(name, ".go") {
		return true
	}
	if skipTest && strings.HasSuffix(name, "_test.go") {
		return true
	}
	return !ok
}

// verifC17Witness is one hand-checked witness of a known finding: a call on the real code
// whose result differs from go/build's.
type verifC17Witness struct {
	Obligation string
	Run        func() (got, want interface{})
}

func verifCtx(goos, goarch string, tags ...string) *build.Context {
	return &build.Context{GOOS: goos, GOARCH: goarch, Compiler: "gc", CgoEnabled: true, BuildTags: tags, ReleaseTags: verifReleaseTags(23)}
}

func verifTerm(ctx *build.Context, s string) (got, want interface{}) {
	defer func() {
		if r := recover(); r != nil {
			got = fmt.Sprintf("panic: %v", r)
		}
	}()
	want = verifPlusBuildTerm(ctx, s)
	got = buildTagOk(ctx, s)
	return
}

func verifLine(ctx *build.Context, s string) (got, want interface{}) {
	defer func() {
		if r := recover(); r != nil {
			got = fmt.Sprintf("panic: %v", r)
		}
	}()
	want = verifPlusBuildLine(ctx, s)
	got = buildLineOk(ctx, s)
	return
}

func verifSkip(ctx *build.Context, name string, skipTest bool) (got, want interface{}) {
	return skipFile(ctx, name, skipTest), verifSkipFile(ctx, name, skipTest)
}

var verifC17Witnesses = []verifC17Witness{
	{"C17/interp.buildTagOk/post:term[empty]", func() (interface{}, interface{}) { return verifTerm(verifCtx("linux", "amd64"), "") }},
	{"C17/interp.buildTagOk/post:term[bang]", func() (interface{}, interface{}) { return verifTerm(verifCtx("linux", "amd64"), "!") }},
	{"C17/interp.buildTagOk/post:term[bangbang]", func() (interface{}, interface{}) { return verifTerm(verifCtx("linux", "amd64"), "!!foo") }},
	{"C17/interp.buildTagOk/post:term[invalid-user]", func() (interface{}, interface{}) { return verifTerm(verifCtx("linux", "amd64", "a-b"), "a-b") }},
	{"C17/interp.buildTagOk/post:term[invalid-release]", func() (interface{}, interface{}) { return verifTerm(verifCtx("linux", "amd64"), "go1.-5") }},
	{"C17/interp.buildTagOk/post:term[invalid-ignore]", func() (interface{}, interface{}) { return verifTerm(verifCtx("linux", "amd64", "ignore"), "a-b") }},
	{"C17/interp.buildTagOk/post:term[release-noncanonical]", func() (interface{}, interface{}) { return verifTerm(verifCtx("linux", "amd64"), "go1.03") }},
	{"C17/interp.buildTagOk/post:term[release-othermatch]", func() (interface{}, interface{}) {
		c := verifCtx("linux", "amd64")
		c.ToolTags = []string{"go1.x"}
		return verifTerm(c, "go1.x")
	}},
	{"C17/interp.buildTagOk/post:term[compiler]", func() (interface{}, interface{}) { return verifTerm(verifCtx("linux", "amd64"), "gc") }},
	{"C17/interp.buildTagOk/post:term[cgo]", func() (interface{}, interface{}) { return verifTerm(verifCtx("linux", "amd64"), "cgo") }},
	{"C17/interp.buildTagOk/post:term[unix]", func() (interface{}, interface{}) { return verifTerm(verifCtx("linux", "amd64"), "unix") }},
	{"C17/interp.buildTagOk/post:term[alias]", func() (interface{}, interface{}) { return verifTerm(verifCtx("android", "arm64"), "linux") }},
	{"C17/interp.buildTagOk/post:term[tooltag]", func() (interface{}, interface{}) {
		c := verifCtx("linux", "amd64")
		c.ToolTags = []string{"goexperiment.x"}
		return verifTerm(c, "goexperiment.x")
	}},
	{"C17/interp.buildTagOk/safe:index@s[0][empty]", func() (interface{}, interface{}) { return verifTerm(verifCtx("linux", "amd64"), "") }},
	{"C17/interp.buildLineOk/post:or-of-options[bare]", func() (interface{}, interface{}) { return verifLine(verifCtx("linux", "amd64"), "+build") }},
	{"C17/interp.buildLineOk/post:or-of-options[tab]", func() (interface{}, interface{}) { return verifLine(verifCtx("linux", "amd64"), "+build\tdarwin") }},
	{"C17/interp.buildLineOk/post:or-of-options[irregular-spacing]", func() (interface{}, interface{}) { return verifLine(verifCtx("linux", "amd64"), "+build darwin  linux") }},
	{"C17/interp.skipFile/post:file-name-rule[multiword-foreign-os]", func() (interface{}, interface{}) { return verifSkip(verifCtx("linux", "amd64"), "foo_bar_darwin.go", true) }},
	{"C17/interp.skipFile/post:file-name-rule[test-constrained]", func() (interface{}, interface{}) { return verifSkip(verifCtx("linux", "amd64"), "foo_darwin_test.go", false) }},
	{"C17/interp.skipFile/post:file-name-rule[dotted]", func() (interface{}, interface{}) { return verifSkip(verifCtx("linux", "amd64"), "foo_darwin.bar.go", true) }},
	{"C17/interp.skipFile/post:file-name-rule[tag-named-like-os]", func() (interface{}, interface{}) { return verifSkip(verifCtx("linux", "amd64", "darwin"), "foo_darwin.go", true) }},
	{"C17/interp.skipFile/post:file-name-rule[table-gap]", func() (interface{}, interface{}) { return verifSkip(verifCtx("linux", "amd64"), "foo_zos.go", true) }},
}

func init() {
	// C17: a file rejected by its own constraint contributes no yaegi:tags; a file's own yaegi:tags do not
	// satisfy its own constraint
	verifProtocolScenarios = append(verifProtocolScenarios, verifScenario{"C17/interp.Interpreter.buildOk/*", func() (bool, string) {
		i := New(Options{})
		ctx := build.Default
		ctx.BuildTags = nil
		ok1, err1 := i.buildOk(&ctx, "a.go", "// +build never\n// yaegi:tags leaked\n\npackage p\n")
		tagsAfter := fmt.Sprint(ctx.BuildTags)
		ctx2 := build.Default
		ctx2.BuildTags = nil
		ok2, err2 := i.buildOk(&ctx2, "b.go", "// +build selfmade\n// yaegi:tags selfmade\n\npackage p\n")
		bad := ok1 || err1 != nil || tagsAfter != "[]" || ok2 || err2 != nil
		return bad, fmt.Sprintf("rejected file: ok=%v err=%v, context tags afterwards %s (want []); self-tagged file: ok=%v err=%v (want false)", ok1, err1, tagsAfter, ok2, err2)
	}})
}
