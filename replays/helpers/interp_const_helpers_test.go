package interp

import (
	"math/big"
	"reflect"
)

// verifKindType maps a reflect.Kind number to the reflect.Type of that basic kind.
func verifKindType(k int) reflect.Type {
	return map[reflect.Kind]reflect.Type{
		reflect.Int: reflect.TypeOf(int(0)), reflect.Int8: reflect.TypeOf(int8(0)), reflect.Int16: reflect.TypeOf(int16(0)),
		reflect.Int32: reflect.TypeOf(int32(0)), reflect.Int64: reflect.TypeOf(int64(0)), reflect.Uint: reflect.TypeOf(uint(0)),
		reflect.Uint8: reflect.TypeOf(uint8(0)), reflect.Uint16: reflect.TypeOf(uint16(0)), reflect.Uint32: reflect.TypeOf(uint32(0)),
		reflect.Uint64: reflect.TypeOf(uint64(0)), reflect.Uintptr: reflect.TypeOf(uintptr(0)),
	}[reflect.Kind(k)]
}

// verifRepresentable is the Go specification's representability of an integer constant in an
// integer type: min <= v <= max.
func verifRepresentable(v *big.Int, t reflect.Type) bool {
	bits := uint(t.Bits())
	lo, hi := new(big.Int), new(big.Int)
	switch t.Kind() {
	case reflect.Int, reflect.Int8, reflect.Int16, reflect.Int32, reflect.Int64:
		lo.Neg(new(big.Int).Lsh(big.NewInt(1), bits-1))
		hi.Sub(new(big.Int).Lsh(big.NewInt(1), bits-1), big.NewInt(1))
	default:
		hi.Sub(new(big.Int).Lsh(big.NewInt(1), bits), big.NewInt(1))
	}
	return v.Cmp(lo) >= 0 && v.Cmp(hi) <= 0
}
