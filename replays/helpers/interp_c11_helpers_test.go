package interp

import (
	"bytes"
	"fmt"
	"testing/fstest"

	"github.com/traefik/yaegi/stdlib"
)

func init() {
	// C11: a file evaluated through EvalPath, then a later piece through Eval using the file's import
	verifProtocolScenarios = append(verifProtocolScenarios, verifScenario{"C11/interp.Interpreter.compileSrc/*", func() (bool, string) {
		var out bytes.Buffer
		fsys := fstest.MapFS{"main.go": &fstest.MapFile{Data: []byte("package main\nimport \"fmt\"\nvar G = 7\nfunc Show() { fmt.Println(\"show\", G) }\n")}}
		i := New(Options{Stdout: &out, Stderr: &out, SourcecodeFilesystem: fsys})
		if err := i.Use(stdlib.Symbols); err != nil {
			return true, err.Error()
		}
		_, err := i.EvalPath("main.go")
		if err != nil {
			return true, "EvalPath: " + err.Error()
		}
		_, err = i.Eval(`fmt.Println("later", G)`)
		want := "later 7\n"
		return err != nil || out.String() != want, fmt.Sprintf("output %q, error %v; the whole program prints %q", out.String(), err, want)
	}})
}

// verifEvalSeq feeds the pieces to one interpreter and returns everything printed and the first error.
func verifEvalSeq(pieces ...string) (out string, err error) {
	var buf bytes.Buffer
	i := New(Options{Stdout: &buf, Stderr: &buf})
	if e := i.Use(stdlib.Symbols); e != nil {
		return "", e
	}
	defer func() {
		if r := recover(); r != nil {
			err = fmt.Errorf("Eval panicked: %v", r)
		}
	}()
	for _, p := range pieces {
		if _, e := i.Eval(p); e != nil && err == nil {
			err = fmt.Errorf("piece %q: %v", p, e)
		}
	}
	return buf.String(), err
}

func init() {
	seq := func(want string, pieces ...string) func() (bool, string) {
		return func() (bool, string) {
			out, err := verifEvalSeq(pieces...)
			return out != want || err != nil, fmt.Sprintf("pieces %q print %q (err %v); evaluated in one piece the program prints %q", pieces, out, err, want)
		}
	}
	verifProtocolScenarios = append(verifProtocolScenarios,
		verifScenario{"C11/interp.Interpreter.CompileAST/if:mainID/*", seq("m\n1\n", "package main\nfunc main() { println(\"m\") }", "x := 1", "println(x)")},
		verifScenario{"C11/interp.compDefineX/*", seq("10 10 11\n", "func pair(x int) (int, int) { return x, x + 1 }", "a, b := pair(1)", "p := &a", "a, c := pair(10)", "println(*p, a, c)")},
		verifScenario{"C11/interp.Interpreter.cfg/if:defineStmt#2/*", seq("1\n", "x := 1", "if true { x := 2; _ = x }", "println(x)")},
		verifScenario{"C11/interp.Interpreter.gta/case:defineXStmt/*", seq("1 true\n", "m := map[string]int{\"a\": 1}", "v, ok := m[\"a\"]", "println(v, ok)")},
		verifScenario{"C15/interp.genGlobalVarDecl/inv-step:loop5.all-seen-batch-members-inited", seq("1 2\n", "var a = 1", "var b = a + 1", "println(a, b)")},
	)
}
