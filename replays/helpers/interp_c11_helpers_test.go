package interp

import (
	"bytes"
	"fmt"
	"testing/fstest"

	"github.com/traefik/yaegi/stdlib"
)

func init() {
	// C11: a file evaluated through EvalPath, then a later piece through Eval using the file's import
	verifProtocolScenarios = append(verifProtocolScenarios, verifScenario{"C11/interp.Interpreter.compileSrc/*", func() (bool, string) {
		var out bytes.Buffer
		fsys := fstest.MapFS{"main.go": &fstest.MapFile{Data: []byte("package main\nimport \"fmt\"\nvar G = 7\nfunc Show() { fmt.Println(\"show\", G) }\n")}}
		i := New(Options{Stdout: &out, Stderr: &out, SourcecodeFilesystem: fsys})
		if err := i.Use(stdlib.Symbols); err != nil {
			return true, err.Error()
		}
		_, err := i.EvalPath("main.go")
		if err != nil {
			return true, "EvalPath: " + err.Error()
		}
		_, err = i.Eval(`fmt.Println("later", G)`)
		want := "later 7\n"
		return err != nil || out.String() != want, fmt.Sprintf("output %q, error %v; the whole program prints %q", out.String(), err, want)
	}})
}
