package interp

import "fmt"

// C02 scenarios: the same expression evaluated by the interpreter; the expected behaviour is what
// the Go specification prescribes (and compiled Go does).
func init() {
	panics := func(src string) func() (bool, string) {
		return func() (bool, string) {
			out, err := verifOutput(src)
			return err == nil, fmt.Sprintf("output %q, error %v; compiled Go panics with \"negative shift amount\"", out, err)
		}
	}
	prints := func(src, want string) func() (bool, string) {
		return func() (bool, string) {
			out, err := verifOutput(src)
			return out != want || err != nil, fmt.Sprintf("output %q (err %v), compiled Go prints %q", out, err, want)
		}
	}
	verifProtocolScenarios = append(verifProtocolScenarios,
		verifScenario{"C02/interp.shl/*", panics("package main\nfunc main() { x, s := 1, -1; println(x << s) }")},
		verifScenario{"C02/interp.shr/*", panics("package main\nfunc main() { x, s := 8, -1; println(x >> s) }")},
		verifScenario{"C02/interp.shlAssign/*", panics("package main\nfunc main() { x, s := 1, -1; x <<= s; println(x) }")},
		verifScenario{"C02/interp.shrAssign/*", panics("package main\nfunc main() { x, s := 8, -1; x >>= s; println(x) }")},
		verifScenario{"C02/interp.inc/post:complete:admitted-kinds", prints("package main\nfunc main() { var p uintptr = 7; p++; println(p); println(\"end\") }", "8\nend\n")},
		verifScenario{"C02/interp.dec/post:complete:admitted-kinds", prints("package main\nfunc main() { var p uintptr = 7; p--; println(p); println(\"end\") }", "6\nend\n")},
	)
}

func init() {
	rejected := func(src string) func() (bool, string) {
		return func() (bool, string) {
			out, err := verifOutput(src)
			return err == nil, fmt.Sprintf("accepted: output %q, error %v; the Go type checker rejects it (constant overflows int8)", out, err)
		}
	}
	verifProtocolScenarios = append(verifProtocolScenarios,
		verifScenario{"C03/interp.addConst/post:typed-overflow-rejected", rejected("package main\nconst a int8 = 100\nconst b = a + a\nfunc main() { println(b) }")},
		verifScenario{"C03/interp.subConst/post:typed-overflow-rejected", rejected("package main\nconst a int8 = -100\nconst c int8 = 100\nconst b = a - c\nfunc main() { println(b) }")},
		verifScenario{"C03/interp.mulConst/post:typed-overflow-rejected", rejected("package main\nconst a int8 = 100\nconst b = a * a\nfunc main() { println(b) }")},
	)
}

func init() {
	rejected := func(src string) func() (bool, string) {
		return func() (bool, string) {
			out, err := verifOutput(src)
			return err == nil, fmt.Sprintf("accepted: output %q, error %v; the Go type checker rejects the program", out, err)
		}
	}
	verifProtocolScenarios = append(verifProtocolScenarios,
		verifScenario{"C12/interp.itype.assignableTo/post:distinct-defined-types-rejected[defined-from]", rejected("package main\ntype A int\ntype B A\nfunc main() { var a A = 1; var b B = a; println(b) }")},
		verifScenario{"C12/probe-unrelated", rejected("package main\ntype A int\ntype B int\nfunc main() { var a A = 1; var b B = a; println(b) }")},
	)
}

func init() {
	// C12: an imported source package is initialised before the importer's type error is reported
	verifProtocolScenarios = append(verifProtocolScenarios, verifScenario{"C12/interp.Interpreter.*", func() (bool, string) {
		out, err := verifImportThenTypeError()
		return err != nil && out != "", fmt.Sprintf("Eval returned error %v, but the imported package already printed %q", err, out)
	}})
}

func init() {
	verifProtocolScenarios = append(verifProtocolScenarios, verifScenario{"C15/interp.getVarDependencies/deps:through-function-bodies", func() (bool, string) {
		out, err := verifOutput("package main\nvar a = f()\nvar b = 1\nfunc f() int { return b }\nfunc main() { println(a, b) }")
		return out != "1 1\n", fmt.Sprintf("output %q (err %v), compiled Go prints \"1 1\\n\"", out, err)
	}})
}
