package interp

import "fmt"

// C02 scenarios: the same expression evaluated by the interpreter; the expected behaviour is what
// the Go specification prescribes (and compiled Go does).
func init() {
	panics := func(src string) func() (bool, string) {
		return func() (bool, string) {
			out, err := verifOutput(src)
			return err == nil, fmt.Sprintf("output %q, error %v; compiled Go panics with \"negative shift amount\"", out, err)
		}
	}
	prints := func(src, want string) func() (bool, string) {
		return func() (bool, string) {
			out, err := verifOutput(src)
			return out != want || err != nil, fmt.Sprintf("output %q (err %v), compiled Go prints %q", out, err, want)
		}
	}
	verifProtocolScenarios = append(verifProtocolScenarios,
		verifScenario{"C02/interp.shl/*", panics("package main\nfunc main() { x, s := 1, -1; println(x << s) }")},
		verifScenario{"C02/interp.shr/*", panics("package main\nfunc main() { x, s := 8, -1; println(x >> s) }")},
		verifScenario{"C02/interp.shlAssign/*", panics("package main\nfunc main() { x, s := 1, -1; x <<= s; println(x) }")},
		verifScenario{"C02/interp.shrAssign/*", panics("package main\nfunc main() { x, s := 8, -1; x >>= s; println(x) }")},
		verifScenario{"C02/interp.Interpreter.cfg/case:binaryExpr#4/*", prints("package main\nfunc f(x int) interface{} { return x << 1 }\nfunc main() { var e interface{}; x := 8; e = x >> 1; println(e.(int)); e = x % 3; println(e.(int)); println(f(x).(int)); println(\"end\") }", "4\n2\n16\nend\n")},
		verifScenario{"C02/interp.Interpreter.cfg/case:unaryExpr#4/*", prints("package main\nfunc f(x int) interface{} { return -x }\nfunc g(b bool) interface{} { return !b }\nfunc main() { var e interface{}; x := 8; e = -x; println(e.(int)); e = ^x; println(e.(int)); println(f(x).(int), g(true).(bool)); println(\"end\") }", "-8\n-9\n-8 false\nend\n")},
		verifScenario{"C02/interp.inc/post:complete:admitted-kinds", prints("package main\nfunc main() { var p uintptr = 7; p++; println(p); println(\"end\") }", "8\nend\n")},
		verifScenario{"C02/interp.dec/post:complete:admitted-kinds", prints("package main\nfunc main() { var p uintptr = 7; p--; println(p); println(\"end\") }", "6\nend\n")},
	)
}

func init() {
	rejected := func(src string) func() (bool, string) {
		return func() (bool, string) {
			out, err := verifOutput(src)
			return err == nil, fmt.Sprintf("accepted: output %q, error %v; the Go type checker rejects it (constant overflows int8)", out, err)
		}
	}
	verifProtocolScenarios = append(verifProtocolScenarios,
		verifScenario{"C03/interp.addConst/post:typed-overflow-rejected", rejected("package main\nconst a int8 = 100\nconst b = a + a\nfunc main() { println(b) }")},
		verifScenario{"C03/interp.subConst/post:typed-overflow-rejected", rejected("package main\nconst a int8 = -100\nconst c int8 = 100\nconst b = a - c\nfunc main() { println(b) }")},
		verifScenario{"C03/interp.shlConst/post:typed-context-representable", rejected("package main\nfunc main() { var x int8 = 1 << 7; println(x) }")},
		verifScenario{"C03/interp.negConst/post:typed-overflow-rejected", rejected("package main\nconst a int8 = -128\nconst b = -a\nfunc main() { println(b) }")},
		verifScenario{"C03/interp.mulConst/post:typed-overflow-rejected", rejected("package main\nconst a int8 = 100\nconst b = a * a\nfunc main() { println(b) }")},
	)
}

func init() {
	rejected := func(src string) func() (bool, string) {
		return func() (bool, string) {
			out, err := verifOutput(src)
			return err == nil || out != "", fmt.Sprintf("accepted: output %q, error %v; the Go type checker rejects the program", out, err)
		}
	}
	verifProtocolScenarios = append(verifProtocolScenarios,
		verifScenario{"C12/interp.itype.assignableTo/post:distinct-defined-types-rejected[defined-from]", rejected("package main\ntype A int\ntype B A\nfunc main() { var a A = 1; var b B = a; println(b) }")},
		verifScenario{"C12/interp.typecheck.comparison/post:equality-needs-comparable-or-nil", rejected("package main\nfunc main() { a, b := []int{1}, []int{1}; println(\"ran\"); println(a == b) }")},
		verifScenario{"C12/interp.typecheck.comparison/post:ordering-needs-ordered", rejected("package main\nfunc main() { a, b := true, false; println(\"ran\"); println(a < b) }")},
		verifScenario{"C12/interp.typecheck.comparison/post:operands-mutually-assignable", rejected("package main\nfunc main() { a, b := 1, \"x\"; println(\"ran\"); println(a == b) }")},
		verifScenario{"C12/interp.typecheck.index/*", rejected("package main\nfunc main() { x := []int{1, 2}; println(\"ran\"); println(x[-1]) }")},
		verifScenario{"C12/interp.typecheck.assignment/*", rejected("package main\ntype S interface{ M() }\nfunc main() { var s S; println(\"ran\"); s = \"x\"; _ = s }")},
		verifScenario{"C12/interp.itype.convertibleTo/*", rejected("package main\nfunc main() { x := 1; p := &x; println(\"ran\"); _ = int(p) }")},
		verifScenario{"C12/probe-unrelated", rejected("package main\ntype A int\ntype B int\nfunc main() { var a A = 1; var b B = a; println(b) }")},
	)
}

func init() {
	// C03: constants defined by a comparison have the value of the comparison
	verifProtocolScenarios = append(verifProtocolScenarios, verifScenario{"C03/interp.compareConst/*", func() (bool, string) {
		out, err := verifOutput("package main\nimport \"fmt\"\nconst a = 1 < 2\nconst b = \"x\" == \"y\"\nconst c = 1.5 > 1\nconst d = !a\nfunc main() { fmt.Println(a, b, c, d) }")
		want := "true false true false\n"
		return out != want || err != nil, fmt.Sprintf("output %q (err %v), compiled Go prints %q", out, err, want)
	}})
}

func init() {
	// C12: programs the Go type checker rejects; Eval must return an error (not panic) and run nothing
	rejectedCleanly := func(src string) func() (bool, string) {
		return func() (observed bool, detail string) {
			defer func() {
				if r := recover(); r != nil {
					observed, detail = true, fmt.Sprintf("Eval panicked instead of returning an error: %v", r)
				}
			}()
			out, err := verifOutput(src)
			return err == nil || out != "", fmt.Sprintf("output %q, error %v; the Go type checker rejects the program", out, err)
		}
	}
	const m = "package main\nfunc main() { println(\"ran\"); "
	verifProtocolScenarios = append(verifProtocolScenarios,
		verifScenario{"C12/interp.typecheck.arrayLitExpr/*", rejectedCleanly(m + "a := [0]int{0: 1}; println(len(a)) }")},
		verifScenario{"C12/interp.typecheck.arrayLitExpr/*", rejectedCleanly(m + "x := 1; a := []int{x: 1}; println(len(a)) }")},
		verifScenario{"C12/interp.typecheck.arrayLitExpr/*", rejectedCleanly(m + "a := []int{1: 1, 0: 3, 4}; println(len(a)) }")},
		verifScenario{"C12/interp.typecheck.arrayLitExpr/*", rejectedCleanly(m + "a := [2]int{1, 2, 3}; println(len(a)) }")},
		verifScenario{"C12/interp.typecheck.mapLitExpr/*", rejectedCleanly(m + "a := map[string]int{\"a\": 1, \"a\": 2}; println(len(a)) }")},
		verifScenario{"C12/interp.typecheck.mapLitExpr/*", rejectedCleanly(m + "a := map[string]int{\"a\": \"b\"}; println(len(a)) }")},
		verifScenario{"C12/interp.typecheck.structLitExpr/*", rejectedCleanly("package main\ntype T struct{ A, B int }\nfunc main() { println(\"ran\"); t := T{1}; println(t.A) }")},
		verifScenario{"C12/interp.typecheck.structLitExpr/*", rejectedCleanly("package main\ntype T struct{ A, B int }\nfunc main() { println(\"ran\"); t := T{1, 2, 3}; println(t.A) }")},
		verifScenario{"C12/interp.typecheck.structLitExpr/*", rejectedCleanly("package main\ntype T struct{ A, B int }\nfunc main() { println(\"ran\"); t := T{A: 1, A: 2}; println(t.A) }")},
		verifScenario{"C12/interp.typecheck.structLitExpr/*", rejectedCleanly("package main\ntype T struct{ A, B int }\nfunc main() { println(\"ran\"); t := T{1, B: 2}; println(t.A) }")},
		verifScenario{"C12/interp.typecheck.addressExpr/*", rejectedCleanly(m + "a := map[int]int{1: 2}; p := &a[1]; println(*p) }")},
		verifScenario{"C12/interp.typecheck.unaryExpr/*", rejectedCleanly(m + "c := make(chan<- int, 1); println(<-c) }")},
		verifScenario{"C12/interp.typecheck.unaryExpr/*", rejectedCleanly(m + "s := \"a\"; println(-s) }")},
		verifScenario{"C12/interp.typecheck.starExpr/*", rejectedCleanly(m + "x := 3; println(*x) }")},
		verifScenario{"C12/interp.typecheck.argument/*", rejectedCleanly("package main\nfunc g(a int, b ...int) int { return a + len(b) }\nfunc main() { println(\"ran\"); s := []string{\"a\"}; println(g(1, s...)) }")},
		verifScenario{"C12/interp.typecheck.arguments/*", rejectedCleanly("package main\nfunc g(a int, b ...int) int { return a + len(b) }\nfunc main() { println(\"ran\"); println(g()) }")},
		verifScenario{"C12/interp.Interpreter.cfg/case:indexExpr#2/*", rejectedCleanly(m + "x := 5; println(x[0]) }")},
		verifScenario{"C12/interp.Interpreter.cfg/case:indexExpr#2/*", rejectedCleanly(m + "c := make(chan int); println(c[0]) }")},
		verifScenario{"C12/interp.Interpreter.cfg/case:indexExpr#2/*", rejectedCleanly(m + "f := func() {}; println(f[0]) }")},
		verifScenario{"C12/interp.Interpreter.cfg/case:indexExpr#2/*", rejectedCleanly(m + "a := [2]int{1, 2}; println(a[2]) }")},
		verifScenario{"C12/interp.Interpreter.cfg/case:callExpr#1/*", rejectedCleanly(m + "x := int(); println(x) }")},
		verifScenario{"C12/interp.Interpreter.cfg/case:callExpr#1/*", rejectedCleanly("package main\nfunc H[T any](a T) T { return a + 1 }\nfunc main() { println(\"ran\"); println(H[string](\"x\")) }")},
		verifScenario{"C12/interp.Interpreter.cfg/case:callExpr#1/*", rejectedCleanly("package main\nfunc g(a int) int { return a }\nfunc main() { println(\"ran\"); println(g(\"x\")) }")},
		verifScenario{"C12/interp.Interpreter.cfg/case:compositeLitExpr#3/*", rejectedCleanly(m + "a := []int{\"x\"}; println(len(a)) }")},
		verifScenario{"C12/interp.Interpreter.cfg/case:sendStmt/*", rejectedCleanly(m + "h := make(chan int, 1); var c <-chan int = h; c <- 1 }")},
		verifScenario{"C12/interp.Interpreter.cfg/case:sendStmt/*", rejectedCleanly(m + "h := make(chan int, 1); var x int8 = 3; h <- x }")},
		verifScenario{"C12/interp.Interpreter.cfg/for:nleft#2/*", rejectedCleanly(m + "var a int; a = \"x\"; println(a) }")},
	)
}

func init() {
	// C12: an imported source package is initialised before the importer's type error is reported
	for _, fn := range []string{"CompileAST", "compileSrc", "gta", "gtaRetry"} {
		verifProtocolScenarios = append(verifProtocolScenarios, verifScenario{"C12/interp.Interpreter." + fn + "/effects:*", func() (bool, string) {
			out, err := verifImportThenTypeError()
			return err != nil && out != "", fmt.Sprintf("Eval returned error %v, but the imported package already printed %q", err, out)
		}})
	}
}

func init() {
	verifProtocolScenarios = append(verifProtocolScenarios, verifScenario{"C15/interp.Interpreter.cfg/if:\"init\"/*", func() (bool, string) {
		out, err := verifOutput("package main\ntype reg struct{ n int }\nfunc (r reg) init() { println(\"method init\") }\nfunc init() { println(\"init 1\") }\nfunc init() { println(\"init 2\") }\nfunc main() { println(\"main\") }")
		want := "init 1\ninit 2\nmain\n"
		return out != want || err != nil, fmt.Sprintf("output %q (err %v), compiled Go prints %q", out, err, want)
	}})
	verifProtocolScenarios = append(verifProtocolScenarios, verifScenario{"C15/interp.getVarDependencies/deps:through-function-bodies", func() (bool, string) {
		out, err := verifOutput("package main\nvar a = f()\nvar b = 1\nfunc f() int { return b }\nfunc main() { println(a, b) }")
		return out != "1 1\n", fmt.Sprintf("output %q (err %v), compiled Go prints \"1 1\\n\"", out, err)
	}})
}

func init() {
	// C04: slice expressions with every operand combination; the output is what compiled Go prints
	prints := func(src, want string) func() (bool, string) {
		return func() (bool, string) {
			out, err := verifOutput(src)
			return out != want || err != nil, fmt.Sprintf("output %q (err %v), compiled Go prints %q", out, err, want)
		}
	}
	const pre = "package main\nfunc main() { a := []int{0,1,2,3,4,5,6,7}; lo, hi, mx := 1, 3, 6; _, _, _ = lo, hi, mx\n"
	verifProtocolScenarios = append(verifProtocolScenarios,
		verifScenario{"C04/interp.slice0/*", prints(pre+"b := a[:hi:mx]; c := a[:hi]; d := a[:]; println(len(b), cap(b), len(c), cap(c), len(d), cap(d)) }", "3 6 3 8 8 8\n")},
		verifScenario{"C04/interp.call/mentions:vararg/*", prints("package main\nfunc set(xs ...int) int { xs[0] = 9; return cap(xs) }\nfunc main() { s := make([]int, 3, 8); c := set(s...); println(s[0], c) }", "9 8\n")},
		verifScenario{"C04/interp.slice/*", prints(pre+"b := a[lo:hi:mx]; c := a[lo:hi]; d := a[lo:]; println(len(b), cap(b), b[0], len(c), cap(c), c[0], len(d), cap(d), d[0]) }", "2 5 1 2 7 1 7 7 1\n")},
	)
}

func init() {
	// C03: a constant next to a float32 rounding midpoint is rounded ONCE to float32 (Go: 0x1.000002p0)
	single := func(body string) func() (bool, string) {
		return func() (bool, string) {
			src := "package main\nconst L = 0x1.000001000000001p0\n" + body
			out, err := verifOutput(src)
			return out != "true\n" || err != nil, fmt.Sprintf("program %q prints %q (err %v); compiled Go prints \"true\\n\" (float32(L) == 0x1.000002p0)", body, out, err)
		}
	}
	verifProtocolScenarios = append(verifProtocolScenarios,
		verifScenario{"C03/interp.typecheck.convertConst/post:float32-rounded-once", single("func main() { var f float32 = L; println(f == 0x1.000002p0) }")},
		verifScenario{"C03/interp.typecheck.convertConst/post:complex64-parts-rounded-once", single("func main() { var c complex64 = L; println(real(c) == 0x1.000002p0) }")},
		verifScenario{"C03/interp.genValueAs//post:float32-rounded-once", single("func f() float32 { return L }\nfunc main() { println(f() == 0x1.000002p0) }")},
		verifScenario{"C03/interp.genValueAs//post:float64-rounded-once", single("func f() float64 { return L }\nfunc main() { println(f() == 0x1.000001p0) }")},
		verifScenario{"C03/interp.genValueAs//post:complex64-from-any-numeric-constant", single("func f() complex64 { return L }\nfunc g() complex64 { return 3 }\nfunc main() { println(real(f()) == 0x1.000002p0 && g() == 3) }")},
		verifScenario{"C03/interp.genValueAs//post:complex128-from-any-numeric-constant", single("func f() complex128 { return 1.5 }\nfunc g() complex128 { return 3 }\nfunc main() { println(f() == 1.5 && g() == 3) }")},
		verifScenario{"C03/interp.convertConstantValue/post:float32-rounded-once", single("func f() (float32, int) { return L, 0 }\nfunc main() { a, _ := f(); println(a == 0x1.000002p0) }")},
		verifScenario{"C03/interp.convertConstantValue/safe:*", single("func f() uint64 { return 1 << 63 }\nfunc g() float64 { return 1 << 70 }\nfunc main() { println(f() == 9223372036854775808 && g() == 1180591620717411303424) }")},
	)
	rejectedC := func(body string) func() (bool, string) {
		return func() (bool, string) {
			out, err := verifOutput("package main\n" + body)
			return err == nil || out != "", fmt.Sprintf("program %q accepted: output %q, error %v; the Go type checker rejects it (constant not representable in the result type)", body, out, err)
		}
	}
	verifProtocolScenarios = append(verifProtocolScenarios,
		verifScenario{"C03/interp.representableConst/post:complex64-both-parts-finite*", rejectedC("func main() { var c complex64 = 1e39i; println(real(c)) }")},
		verifScenario{"C03/interp.representableConst/post:complex128-both-parts-finite*", rejectedC("func main() { var c complex128 = 1e309i; println(real(c)) }")},
		verifScenario{"C03/interp.representableConst/post:float32-finite*", rejectedC("func main() { var f float32 = 1e39; println(f) }")},
		verifScenario{"C03/interp.representableConst/post:float64-finite*", rejectedC("func main() { var f float64 = 1e309; println(f) }")},
		verifScenario{"C03/interp.Interpreter.cfg/case:sendStmt/*", rejectedC("func main() { ch := make(chan int8, 1); ch <- 200; println(<-ch) }")},
		verifScenario{"C03/interp.typecheck.binaryExpr/*", rejectedC("func main() { var x int8 = 1; println(x == 200) }")},
		verifScenario{"C03/interp.Interpreter.cfg/case:returnStmt/*", rejectedC("func f() int8 { return 200 }\nfunc g() int { return 1.5 }\nfunc h() uint { return -1 }\nfunc main() { println(f(), g(), h()) }")},
	)
}

func init() {
	// C03: real / imag of an untyped complex constant; && and || of boolean constants
	verifProtocolScenarios = append(verifProtocolScenarios,
		verifScenario{"C03/interp.realConst/*", func() (observed bool, detail string) {
			defer func() {
				if r := recover(); r != nil {
					observed, detail = true, fmt.Sprintf("Eval panicked: %v", r)
				}
			}()
			out, err := verifOutput("package main\nimport \"fmt\"\nconst c = 2 + 3i\nconst r = real(c)\nfunc main() { fmt.Println(r, real(2+3i)) }")
			want := "2 2\n"
			return out != want || err != nil, fmt.Sprintf("output %q (err %v), compiled Go prints %q", out, err, want)
		}},
		verifScenario{"C03/interp.imagConst/*", func() (observed bool, detail string) {
			defer func() {
				if r := recover(); r != nil {
					observed, detail = true, fmt.Sprintf("Eval panicked: %v", r)
				}
			}()
			out, err := verifOutput("package main\nimport \"fmt\"\nconst c = 2 + 3i\nconst i = imag(c)\nfunc main() { fmt.Println(i, imag(2+3i)) }")
			want := "3 3\n"
			return out != want || err != nil, fmt.Sprintf("output %q (err %v), compiled Go prints %q", out, err, want)
		}},
		verifScenario{"C03/interp.Interpreter.cfg/case:landExpr/*", func() (bool, string) {
			out, err := verifOutput("package main\nimport \"fmt\"\nconst a = 1 < 2 && 2 < 3\nconst b = true && false\nfunc main() { if a { fmt.Print(\"in \") }; fmt.Println(a, b) }")
			want := "in true false\n"
			return out != want || err != nil, fmt.Sprintf("output %q (err %v), compiled Go prints %q", out, err, want)
		}},
		verifScenario{"C03/interp.Interpreter.cfg/case:lorExpr/*", func() (bool, string) {
			out, err := verifOutput("package main\nimport \"fmt\"\nconst b = true && false\nconst d = b || true\nfunc main() { fmt.Println(b, d) }")
			want := "false true\n"
			return out != want || err != nil, fmt.Sprintf("output %q (err %v), compiled Go prints %q", out, err, want)
		}},
	)
}

func init() {
	// C03: a comparison whose operand is itself a constant expression, in a constant declaration
	verifProtocolScenarios = append(verifProtocolScenarios,
		verifScenario{"C03/interp.Interpreter.cfg/case:binaryExpr#4/pre:guard@fixUntyped", func() (bool, string) {
			out, err := verifOutput("package main\nimport \"fmt\"\nconst m = 2*3 == 6\nconst k = (1 << 3) == 8\nconst s = \"a\"+\"b\" == \"ab\"\nfunc main() { fmt.Println(m, k, s) }")
			want := "true true true\n"
			return out != want || err != nil, fmt.Sprintf("output %q (err %v), compiled Go prints %q", out, err, want)
		}},
		verifScenario{"C03/interp.Interpreter.cfg/case:binaryExpr#1/*", func() (bool, string) {
			out, err := verifOutput("package main\nimport \"fmt\"\nconst j = -(2 + 1) < 0\nconst m = 2*3 == 6\nfunc main() { fmt.Println(j, m) }")
			want := "true true\n"
			return out != want || err != nil, fmt.Sprintf("output %q (err %v), compiled Go prints %q", out, err, want)
		}},
	)
}

func init() {
	// C03: comparisons of typed constants are constants
	verifProtocolScenarios = append(verifProtocolScenarios, verifScenario{"C03/interp.compareConst/post:typed-*", func() (bool, string) {
		out, err := verifOutput("package main\nimport (\"fmt\"; \"time\")\nconst a int = 3\nconst c = a == 3\nconst s string = \"x\"\nconst e = s == \"x\"\ntype T int\nconst t T = 3\nconst ne = t != 3\nconst d = time.Second > time.Millisecond\nfunc main() { fmt.Println(c, e, ne, d) }")
		want := "true true false true\n"
		return out != want || err != nil, fmt.Sprintf("output %q (err %v), compiled Go prints %q", out, err, want)
	}})
}
