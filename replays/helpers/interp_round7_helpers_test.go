package interp

import (
	"bytes"
	"context"
	"fmt"
	"go/build"
	"reflect"
	"strings"

	"github.com/traefik/yaegi/stdlib"
)

// Scenarios for the obligations added with the seventh round of seeded changes: each one is a small
// program (or a call of the function under contract) whose expected behaviour is that of compiled Go /
// of go/build; `observed` means the real code deviates.
func init() {
	prints := func(src, want string) func() (bool, string) {
		return func() (observed bool, detail string) {
			defer func() {
				if r := recover(); r != nil {
					observed, detail = true, fmt.Sprintf("Eval panicked: %v", r)
				}
			}()
			out, err := verifOutput(src)
			return out != want || err != nil, fmt.Sprintf("output %q (err %v), compiled Go prints %q", out, err, want)
		}
	}
	pieces := func(want string, srcs ...string) func() (bool, string) {
		return func() (observed bool, detail string) {
			defer func() {
				if r := recover(); r != nil {
					observed, detail = true, fmt.Sprintf("Eval panicked: %v", r)
				}
			}()
			var out bytes.Buffer
			i := New(Options{Stdout: &out, Stderr: &out})
			if err := i.Use(stdlib.Symbols); err != nil {
				return true, err.Error()
			}
			for k, s := range srcs {
				if _, err := i.Eval(s); err != nil {
					return true, fmt.Sprintf("piece %d: %v", k+1, err)
				}
			}
			return out.String() != want, fmt.Sprintf("pieces %q print %q, the program evaluated whole prints %q", srcs, out.String(), want)
		}
	}
	rejected := func(src string) func() (bool, string) {
		return func() (observed bool, detail string) {
			defer func() {
				if r := recover(); r != nil {
					observed, detail = true, fmt.Sprintf("Eval panicked instead of returning an error: %v", r)
				}
			}()
			out, err := verifOutput(src)
			return err == nil || out != "", fmt.Sprintf("output %q, error %v; the Go type checker rejects the program", out, err)
		}
	}
	mainOnce := pieces("b\na\ninit1\nmain 2 1\nd\nc\ninit2\ninit3 2 1 12 10\n",
		"package main\nfunc trace(s string, v int) int { println(s); return v }\nvar a = trace(\"a\", b+1)\nvar b = trace(\"b\", 1)\nfunc init() { println(\"init1\") }\nfunc main() { println(\"main\", a, b) }",
		"package main\nvar c = trace(\"c\", d+a)\nvar d = trace(\"d\", 10)\nfunc init() { println(\"init2\") }",
		"package main\nfunc init() { println(\"init3\", a, b, c, d) }")
	deferredPtrMethod := prints("package main\nimport \"fmt\"\ntype acc struct{ log []int }\nfunc (a *acc) add(i int) { a.log = append(a.log, i) }\nfunc (a *acc) show() { fmt.Println(\"log\", a.log) }\nfunc run() { var a acc; defer a.show(); for i := 0; i < 3; i++ { defer a.add(i) }; a.add(10) }\nfunc main() { run() }", "log [10 2 1 0]\n")
	verifProtocolScenarios = append(verifProtocolScenarios,
		// C02: -x of a float is the sign flip
		verifScenario{"C02/interp.neg/*", prints("package main\nimport (\"fmt\"; \"math\")\nfunc main() { x := 0.0; y := -x; var f float32; g := -f; fmt.Println(math.Signbit(y), 1/y, math.Signbit(float64(g)), -(x+1.5)) }", "true -Inf true -1.5\n")},
		// C04: an array literal is built apart from its destination
		verifScenario{"C04/interp.arrayLit/*", prints("package main\nimport \"fmt\"\nfunc main() { a := [2]int{1, 2}; a = [2]int{a[1], a[0]}; s := []int{3, 4}; s = []int{s[1], s[0]}; fmt.Println(a, s) }", "[2 1] [4 3]\n")},
		// C06 / C07 / C08: a deferred pointer-receiver method acts on the variable
		verifScenario{"C06/interp.genFunctionWrapper/calls:MakeFunc/post:pointer-receiver-designates-the-variable", deferredPtrMethod},
		verifScenario{"C07/interp.genFunctionWrapper/calls:MakeFunc/post:pointer-receiver-designates-the-variable", deferredPtrMethod},
		verifScenario{"C08/interp.genFunctionWrapper/calls:MakeFunc/post:pointer-receiver-designates-the-variable", deferredPtrMethod},
		// C07: a script interface value that crosses to the host arrives without interpreter wrappers
		verifScenario{"C07/interp.valueInterfaceValue/*", prints("package main\nimport \"fmt\"\ntype I interface{ M() int }\ntype T struct{ V int }\nfunc (t T) M() int { return t.V }\nfunc mk(v int) I { return T{v} }\nfunc pass(x I) { fmt.Printf(\"%v %T\\n\", x, x) }\nfunc main() { x := mk(3); pass(x); pass(mk(7)) }", "{3} struct { V int }\n{7} struct { V int }\n")},
		// C11: variables of a later piece wait for each other, not for those of earlier pieces
		verifScenario{"C11/interp.genGlobalVarDecl/*", pieces("1 2 3\n", "import \"fmt\"", "var a = 1", "var c = a + b\nvar b = 2", "fmt.Println(a, b, c)")},
		verifScenario{"C15/interp.genGlobalVarDecl/*", pieces("1 2 3\n", "import \"fmt\"", "var a = 1", "var c = a + b\nvar b = 2", "fmt.Println(a, b, c)")},
		// C12: copy needs a slice destination
		verifScenario{"C12/interp.typecheck.builtin/post:copy-*", rejected("package main\nfunc main() { println(\"ran\"); s := \"abc\"; n := copy(s, []byte{1}); println(n) }")},
		// C15 / C11: main runs once, with the piece that declares it
		verifScenario{"C11/interp.Interpreter.CompileAST/if:mainID/*", mainOnce},
		verifScenario{"C15/interp.Interpreter.CompileAST/if:mainID/*", mainOnce},
		// C13: Use keeps a table of its own per package, it does not adopt (and later write into) the caller's map
		verifScenario{"C13/interp.Interpreter.Use/for:values/*", func() (bool, string) {
			mine := map[string]reflect.Value{"A": reflect.ValueOf(1)}
			i := New(Options{})
			if err := i.Use(Exports{"host/host": mine}); err != nil {
				return true, err.Error()
			}
			if err := i.Use(Exports{"host/host": {"B": reflect.ValueOf(2)}}); err != nil {
				return true, err.Error()
			}
			_, leaked := mine["B"]
			return leaked || len(mine) != 1, fmt.Sprintf("after Use(mine) and a second Use for the same package the caller's map has %d entries (B present: %v); it is the caller's and must keep its 1 entry", len(mine), leaked)
		}},
		// C17: every +build line of every comment group of the header counts (go/build ANDs them)
		verifScenario{"C17/interp.Interpreter.buildOk/*", func() (bool, string) {
			src := "// +build foo\n\n// +build bar\n\npackage x\n"
			i := New(Options{})
			ctx := build.Default
			ctx.BuildTags = []string{"foo"}
			got, err := i.buildOk(&ctx, "x.go", src)
			return got || err != nil, fmt.Sprintf("buildOk with tags [foo] on %q = %v (err %v); go/build excludes the file (the second group requires bar)", src, got, err)
		}},
		// C19: breakpoints on a line that starts a multi-line statement and on a line inside it
		verifScenario{"C19/interp.Debugger.SetBreakpoints/calls:setBreakOnLine/post:the-whole-tree-is-visited", func() (bool, string) {
			src := "package main\n\nfunc main() {\n\tf := func() {\n\t\tprintln(\"in\")\n\t}\n\tf()\n}\n"
			i := New(Options{Stdout: &bytes.Buffer{}, Stderr: &bytes.Buffer{}})
			p, err := i.Compile(src)
			if err != nil {
				return true, err.Error()
			}
			dbg := i.Debug(context.Background(), p, func(*DebugEvent) {}, nil)
			bps := dbg.SetBreakpoints(ProgramBreakpointTarget(p), LineBreakpoint(4), LineBreakpoint(5))
			var st []string
			ok := len(bps) == 2
			for _, b := range bps {
				st = append(st, fmt.Sprintf("line %d valid=%v", b.Position.Line, b.Valid))
				ok = ok && b.Valid
			}
			return !ok, "SetBreakpoints(lines 4, 5) on a closure literal starting at line 4: " + strings.Join(st, ", ") + "; both lines hold executable statements"
		}},
	)
}

var verifHostCounter = 5
var verifHostFlag bool
var verifHostList = []int{1}

func init() {
	// C07: a variable supplied by the host is read when the statement runs, and assignments reach it
	hostVar := func() (observed bool, detail string) {
		defer func() {
			if r := recover(); r != nil {
				observed, detail = true, fmt.Sprintf("Eval panicked: %v", r)
			}
		}()
		verifHostCounter, verifHostFlag, verifHostList = 5, false, []int{1}
		var out bytes.Buffer
		i := New(Options{Stdout: &out, Stderr: &out})
		if err := i.Use(stdlib.Symbols); err != nil {
			return true, err.Error()
		}
		if err := i.Use(Exports{"host/host": {
			"Counter": reflect.ValueOf(&verifHostCounter).Elem(),
			"Flag":    reflect.ValueOf(&verifHostFlag).Elem(),
			"List":    reflect.ValueOf(&verifHostList).Elem(),
			"Set":     reflect.ValueOf(func() { verifHostFlag = true; verifHostCounter = 50 }),
		}}); err != nil {
			return true, err.Error()
		}
		_, err := i.Eval("package main\nimport (\"fmt\"; \"host\")\nfunc main() {\n host.Counter = 7\n x := host.Counter\n fmt.Println(x, host.Counter == 7, host.Counter + 1)\n host.Set()\n if host.Flag { fmt.Println(\"flag seen\", -host.Counter) } else { fmt.Println(\"flag not seen\") }\n host.List = append(host.List, 2)\n fmt.Println(host.List)\n}")
		want := "7 true 8\nflag seen -50\n[1 2]\n"
		return out.String() != want || err != nil || len(verifHostList) != 2, fmt.Sprintf("output %q (err %v, host list %v); with the variables declared in the script itself the program prints %q", out.String(), err, verifHostList, want)
	}
	verifProtocolScenarios = append(verifProtocolScenarios, verifScenario{"C07/interp.Interpreter.cfg/if:binPkg/*", hostVar}, verifScenario{"C07/interp.getBinVar/*", hostVar})
}

var verifHostChan = make(chan int, 2)

func init() {
	// C07: send, receive and select on a channel variable supplied by the host
	verifProtocolScenarios = append(verifProtocolScenarios, verifScenario{"C07/interp.send/*", func() (observed bool, detail string) {
		defer func() {
			if r := recover(); r != nil {
				observed, detail = true, fmt.Sprintf("Eval panicked: %v", r)
			}
		}()
		verifHostChan = make(chan int, 2)
		var out bytes.Buffer
		i := New(Options{Stdout: &out, Stderr: &out})
		if err := i.Use(stdlib.Symbols); err != nil {
			return true, err.Error()
		}
		if err := i.Use(Exports{"host/host": {"Ch": reflect.ValueOf(&verifHostChan).Elem()}}); err != nil {
			return true, err.Error()
		}
		_, err := i.Eval("package main\nimport (\"fmt\"; \"host\")\nfunc main() {\n host.Ch <- 1\n var x int8 = 3\n host.Ch <- int(x) * 2\n v, ok := <-host.Ch\n select { case w := <-host.Ch: fmt.Println(v, ok, w, len(host.Ch)); default: fmt.Println(\"empty\") }\n host.Ch <- 9\n}")
		want := "1 true 6 0\n"
		return out.String() != want || err != nil || len(verifHostChan) != 1, fmt.Sprintf("output %q (err %v, %d value(s) left for the host); compiled Go prints %q and leaves 1", out.String(), err, len(verifHostChan), want)
	}})
}
