package interp

// Fixed replay scenarios for the run-id protocol obligations (C09, C10): each runs the real
// interpreter and reports whether the behaviour the obligation guards against is observed.

import (
	"sort"
	"strings"
	"sync"
	"runtime"
	"context"
	"fmt"
	"reflect"
	"sync/atomic"
	"time"

	"github.com/traefik/yaegi/stdlib"
)

type verifScenario struct {
	Obligation string
	Run        func() (observed bool, detail string)
}

var verifTicks int64

func verifNewInterp() *Interpreter {
	i := New(Options{})
	if err := i.Use(Exports{"host/host": {
		"Tick": reflect.ValueOf(func() { atomic.AddInt64(&verifTicks, 1) }),
		"Spin": reflect.ValueOf(func(d int) int { time.Sleep(time.Duration(d) * time.Millisecond); return d }),
	}}); err != nil {
		panic(err)
	}
	i.ImportUsed()
	return i
}

func verifCancelledEval(i *Interpreter, src string, after time.Duration) error {
	ctx, cancel := context.WithCancel(context.Background())
	go func() { time.Sleep(after); cancel() }()
	_, err := i.EvalWithContext(ctx, src)
	return err
}

var verifProtocolScenarios = []verifScenario{
	{"C09/interp.Interpreter.run/pre:id-inherited@newFrame", func() (bool, string) {
		// cancellation lands during global variable initialisation: main must not run afterwards
		i := verifNewInterp()
		atomic.StoreInt64(&verifTicks, 0)
		err := verifCancelledEval(i, `package main
import "host"
var x = host.Spin(300)
func main() { for k := 0; k < 1000000; k++ { host.Tick() } }`, 50*time.Millisecond)
		time.Sleep(600 * time.Millisecond)
		n := atomic.LoadInt64(&verifTicks)
		return n > 0, fmt.Sprintf("EvalWithContext returned %v, main produced %d host ticks after the cancellation", err, n)
	}},
	{"C10/interp.getFunc/calls:newFrame/pre:frame-current@runCfg", func() (bool, string) {
		// a closure stored in a variable by an earlier evaluation, called after a cancelled evaluation
		i := verifNewInterp()
		if _, err := i.Eval(`func mk() func(int) int { k := 1; return func(a int) int { return a + k } }
var clo = mk()`); err != nil {
			return false, err.Error()
		}
		v0, _ := i.Eval("clo(1)")
		verifCancelledEval(i, `for { }`, 20*time.Millisecond)
		v1, err := i.Eval("clo(1)")
		return fmt.Sprint(v0) != fmt.Sprint(v1), fmt.Sprintf("clo(1) before the cancelled evaluation: %v, after: %v (err %v)", v0, v1, err)
	}},
	{"C10/interp.genFunctionWrapper/calls:newFrame/pre:frame-current@runCfg", func() (bool, string) {
		// a function value handed to the host, called directly after a cancelled evaluation
		i := verifNewInterp()
		if _, err := i.Eval(`func Named(a int) int { return a + 1 }`); err != nil {
			return false, err.Error()
		}
		v, err := i.Eval("Named")
		if err != nil {
			return false, err.Error()
		}
		f := v.Interface().(func(int) int)
		before := f(1)
		verifCancelledEval(i, `for { }`, 20*time.Millisecond)
		after := f(1)
		return before != after, fmt.Sprintf("host-held Named(1) before the cancelled evaluation: %d, after: %d", before, after)
	}},
}

func init() {
	blocking := func(src, call string) func() (bool, string) {
		return func() (bool, string) {
			// the function is compiled by a plain Eval (non-cancellable closures), then run under a
			// cancelled EvalWithContext: its goroutine must not stay parked forever
			i := verifNewInterp()
			if _, err := i.Eval(src); err != nil {
				return false, err.Error()
			}
			before := runtimeNumGoroutine()
			err := verifCancelledEval(i, call, 50*time.Millisecond)
			time.Sleep(400 * time.Millisecond)
			after := runtimeNumGoroutine()
			return after > before, fmt.Sprintf("EvalWithContext returned %v; goroutines before %d, after %d", err, before, after)
		}
	}
	verifProtocolScenarios = append(verifProtocolScenarios,
		verifScenario{"C09/interp.recv/blocking:races-done", blocking(`func F(c chan int) int { return <-c }`, `F(make(chan int))`)},
		verifScenario{"C09/interp.recv2/blocking:races-done", blocking(`func F(c chan int) bool { _, ok := <-c; return ok }`, `F(make(chan int))`)},
		verifScenario{"C09/interp.send/blocking:races-done", blocking(`func F(c chan int) { c <- 1 }`, `F(make(chan int))`)},
	)
}

func runtimeNumGoroutine() int { return runtime.NumGoroutine() }

func init() {
	// a select statement compiled and run under a cancelled EvalWithContext: the goroutine parked in
	// reflect.Select must leave when the evaluation is cancelled
	sel := func(src string) func() (bool, string) {
		return func() (bool, string) {
			i := verifNewInterp()
			before := runtimeNumGoroutine()
			err := verifCancelledEval(i, src, 50*time.Millisecond)
			time.Sleep(400 * time.Millisecond)
			after := runtimeNumGoroutine()
			return after > before || err != context.Canceled, fmt.Sprintf("EvalWithContext returned %v (want context canceled); goroutines before %d, after %d", err, before, after)
		}
	}
	verifProtocolScenarios = append(verifProtocolScenarios,
		verifScenario{"C09/interp._select/*", sel(`c, d := make(chan int), make(chan int); select { case v := <-c: println(v); case d <- 1: }`)},
	)
}

// C13: a script that obtains an unwrapped *log.Logger can terminate the host. The scenario runs
// the script in a child process (this test binary re-executed) and reports whether the child died.
func verifChildEval(src string) (exitCode int, out string) {
	cmd := osexecCommand(osArgs0(), "-test.run=TestZZVerifChild$")
	cmd.Env = append(osEnviron(), "VERIF_CHILD_SRC="+src)
	b, err := cmd.CombinedOutput()
	code := 0
	if err != nil {
		code = 1
		if ee, ok := err.(interface{ ExitCode() int }); ok {
			code = ee.ExitCode()
		}
	}
	return code, string(b)
}

func init() {
	logger := func(expr string) func() (bool, string) {
		return func() (bool, string) {
			code, out := verifChildEval(`import ("log"; "log/slog"; "log/syslog"; "os"); var _ = slog.Default; var _ = syslog.LOG_INFO; var _ = os.Args; func F() { defer func() { recover() }(); ` + expr + `.Fatal("bye") }; func main() { F(); println("SURVIVED") }`)
			return !strings.Contains(out, "SURVIVED"), fmt.Sprintf("child exit code %d, survived=%v", code, strings.Contains(out, "SURVIVED"))
		}
	}
	verifProtocolScenarios = append(verifProtocolScenarios,
		verifScenario{"C13/stdlib/default-table/no-unwrapped-logger[log.Default]", logger(`log.Default()`)},
		verifScenario{"C13/stdlib/default-table/no-unwrapped-logger[log/slog.NewLogLogger]", logger(`slog.NewLogLogger(slog.Default().Handler(), slog.LevelInfo)`)},
	)
}

func init() {
	// C10: what an earlier evaluation defined still works after a cancelled one
	verifProtocolScenarios = append(verifProtocolScenarios,
		verifScenario{"C10/interp.Interpreter.stop/*", func() (bool, string) {
			// after a cancellation, a plain Eval ranges over a closed buffered channel: both values must be seen
			i := verifNewInterp()
			verifCancelledEval(i, `for { }`, 20*time.Millisecond)
			bad := 0
			var last interface{}
			for k := 0; k < 20; k++ {
				v, err := i.Eval(fmt.Sprintf(`e%d := make(chan int, 2); e%d <- 1; e%d <- 2; close(e%d); n%d := 0; for v := range e%d { n%d += v }; n%d`, k, k, k, k, k, k, k, k))
				if err != nil || !v.IsValid() || fmt.Sprint(v) != "3" {
					bad++
					last = fmt.Sprint(v, err)
				}
			}
			return bad > 0, fmt.Sprintf("%d of 20 plain evaluations after a cancelled one did not sum the channel to 3 (last: %v)", bad, last)
		}},
		verifScenario{"C10/interp.recv/*", func() (bool, string) {
			// a receive into a global, cancelled while blocked: the global keeps its value
			i := verifNewInterp()
			if _, err := i.Eval(`x := 5; c := make(chan int)`); err != nil {
				return false, err.Error()
			}
			verifCancelledEval(i, `x = <-c`, 50*time.Millisecond)
			time.Sleep(100 * time.Millisecond)
			v, err := func() (v reflect.Value, err error) {
				defer func() {
					if r := recover(); r != nil {
						err = fmt.Errorf("panic: %v", r)
					}
				}()
				return i.Eval(`x + 1`)
			}()
			return err != nil || !v.IsValid() || fmt.Sprint(v) != "6", fmt.Sprintf("x + 1 after the cancelled receive: %v (err %v), want 6", v, err)
		}},
	)
}

func init() {
	// C08: what a goroutine is started with is fixed at the go statement
	goArgs := func() (bool, string) {
		var mu sync.Mutex
		var got []int
		i := New(Options{})
		if err := i.Use(Exports{"host/host": {"Rec": reflect.ValueOf(func(v int, done func()) { mu.Lock(); got = append(got, v); mu.Unlock(); done() })}}); err != nil {
			return false, err.Error()
		}
		i.Use(stdlib.Symbols)
		_, err := i.Eval(`package main
import ("host"; "sync")
func main() { var wg sync.WaitGroup; for k := 0; k < 4; k++ { wg.Add(1); go host.Rec(k*10, wg.Done) }; wg.Wait() }`)
		sort.Ints(got)
		return err != nil || fmt.Sprint(got) != "[0 10 20 30]", fmt.Sprintf("the host function received %v (err %v), compiled Go: [0 10 20 30]", got, err)
	}
	recvBinding := func() (bool, string) {
		out, err := verifOutput(`package main
import "sync"
type W struct{ n int }
func (w W) run(wg *sync.WaitGroup, out []int) { out[w.n] = w.n + 100; wg.Done() }
func main() {
	var wg sync.WaitGroup
	out := make([]int, 4)
	ws := []W{{0}, {1}, {2}, {3}}
	for _, w := range ws { wg.Add(1); go w.run(&wg, out) }
	wg.Wait()
	println(out[0], out[1], out[2], out[3])
}`)
		return err != nil || out != "100 101 102 103\n", fmt.Sprintf("output %q (err %v), compiled Go prints \"100 101 102 103\\n\"", out, err)
	}
	verifProtocolScenarios = append(verifProtocolScenarios,
		verifScenario{"C08/interp.callBin/go:args-copied*", goArgs},
		verifScenario{"C08/interp.genFunctionWrapper/calls:MakeFunc/*", recvBinding},
		verifScenario{"C08/interp.genFunctionWrapper/calls:runCfg/pre:apply-guard*", recvBinding},
	)
}
