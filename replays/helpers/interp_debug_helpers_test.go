package interp

import (
	"bytes"
	"context"
	"errors"
	"fmt"
	"time"
)

// C19 scenarios: a debug session over a fixed program; the lines of the reported DebugBreak events
// are compared with the lines that carry a breakpoint and execute, in execution order.
const verifDebugSrc = `package main

func helper(x int) int {
	y := x * 2
	return y + 1
}

func main() {
	n := 1
	a := helper(n)
	b := helper(a)
	println(a, b)
}
`

// verifDebugSession runs the program with line breakpoints; at every stop the next request of reqs is
// issued (0 = Continue, also once reqs is used up).
func verifDebugSession(bpLines []int, reqs []DebugEventReason) (breaks []int, out string, terminated bool, err error) {
	return verifDebugSessionSrc(verifDebugSrc, bpLines, reqs)
}

func verifDebugSessionSrc(src string, bpLines []int, reqs []DebugEventReason) (breaks []int, out string, terminated bool, err error) {
	var stdout, stderr bytes.Buffer
	i := New(Options{Stdout: &stdout, Stderr: &stderr})
	prog, err := i.Compile(src)
	if err != nil {
		return nil, "", false, err
	}
	type ev struct {
		reason DebugEventReason
		line   int
	}
	evch := make(chan ev, 256)
	dbg := i.Debug(context.Background(), prog, func(e *DebugEvent) {
		x := ev{reason: e.Reason()}
		switch x.reason {
		case DebugBreak, DebugStepInto, DebugStepOver, DebugStepOut, DebugPause, DebugEntry:
			if fr := e.Frames(0, 1); len(fr) > 0 {
				x.line = fr[0].Position().Line
			}
		}
		evch <- x
	}, nil)
	var bps []BreakpointRequest
	for _, l := range bpLines {
		bps = append(bps, LineBreakpoint(l))
	}
	for k, r := range dbg.SetBreakpoints(ProgramBreakpointTarget(prog), bps...) {
		if !r.Valid {
			return nil, "", false, fmt.Errorf("breakpoint on line %d not valid", bpLines[k])
		}
	}
	if err := dbg.Continue(0); err != nil {
		return nil, "", false, err
	}
	timeout := time.After(20 * time.Second)
	for !terminated {
		var e ev
		select {
		case e = <-evch:
		case <-timeout:
			return breaks, stdout.String(), false, errors.New("timeout waiting for debug events")
		}
		switch e.reason {
		case DebugTerminate:
			terminated = true
			continue
		case DebugEnterGoRoutine, DebugExitGoRoutine:
			continue
		case DebugBreak:
			breaks = append(breaks, e.line)
		}
		var rq DebugEventReason
		if len(reqs) > 0 {
			rq, reqs = reqs[0], reqs[1:]
		}
		if rq == 0 {
			if err := dbg.Continue(0); err != nil {
				return breaks, stdout.String(), false, err
			}
			continue
		}
		for {
			err := dbg.Step(0, rq)
			if errors.Is(err, ErrRunning) {
				time.Sleep(time.Millisecond)
				continue
			}
			if err != nil {
				return breaks, stdout.String(), false, err
			}
			break
		}
	}
	_, err = dbg.Wait()
	return breaks, stderr.String() + stdout.String(), terminated, err
}

func init() {
	session := func(bps []int, reqs []DebugEventReason, want []int) func() (bool, string) {
		return func() (bool, string) {
			got, out, term, err := verifDebugSession(bps, reqs)
			bad := err != nil || !term || fmt.Sprint(got) != fmt.Sprint(want) || out != "3 7\n"
			return bad, fmt.Sprintf("breakpoints %v, requests %v: DebugBreak events at lines %v (want %v), output %q (want \"3 7\\n\"), terminated %v, err %v", bps, reqs, got, want, out, term, err)
		}
	}
	verifProtocolScenarios = append(verifProtocolScenarios,
		// step over a call whose body holds a breakpoint: the breakpoint is still reported
		verifScenario{"C19/interp.Debugger.exec/post:breakpoint-reported", session([]int{9, 4}, []DebugEventReason{DebugStepOver, DebugStepOver, DebugStepOver, DebugStepOver}, []int{9, 4, 4})},
		verifScenario{"C19/interp.Debugger.exec/post:free-run-stops-only-at-breakpoints", session([]int{9, 4}, nil, []int{9, 4, 4})},
	)
}

const verifDebugBranchSrc = `package main

func grade(score int) string {
	g := ""
	if score >= 50 {
		g = "pass"
	} else {
		g = "fail"
	}
	return g
}

func main() {
	println(grade(70), grade(20))
}
`

func init() {
	verifProtocolScenarios = append(verifProtocolScenarios, verifScenario{"C19/interp.runCfg/loop-step:loop2.tracked-node*", func() (bool, string) {
		got, out, term, err := verifDebugSessionSrc(verifDebugBranchSrc, []int{6, 8}, nil)
		want := []int{6, 8}
		bad := err != nil || !term || fmt.Sprint(got) != fmt.Sprint(want) || out != "pass fail\n"
		return bad, fmt.Sprintf("breakpoints on the then-line 6 and the else-line 8, grade(70) then grade(20): DebugBreak events at lines %v (want %v), output %q, terminated %v, err %v", got, want, out, term, err)
	}})
}

func init() {
	// the true edge of a branch whose successors are indistinguishable closures is tracked correctly
	verifProtocolScenarios = append(verifProtocolScenarios, verifScenario{"C19/interp.runCfg/loop-step:loop2.true-successor*", func() (bool, string) {
		src := "package main\n\nfunc grade(score int) string {\n\tg := \"\"\n\tif score >= 50 {\n\t\tg = \"pass\"\n\t} else {\n\t\tg = \"fail\"\n\t}\n\treturn g\n}\n\nfunc main() {\n\tprintln(grade(70), grade(90))\n}\n"
		got, out, term, err := verifDebugSessionSrc(src, []int{6, 8}, nil)
		want := []int{6, 6}
		bad := err != nil || !term || fmt.Sprint(got) != fmt.Sprint(want) || out != "pass pass\n"
		return bad, fmt.Sprintf("breakpoints on the then-line 6 and the else-line 8, grade(70) then grade(90): DebugBreak events at lines %v (want %v), output %q, terminated %v, err %v", got, want, out, term, err)
	}})
}
