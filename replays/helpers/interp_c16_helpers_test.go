package interp

import (
	"fmt"
	"testing/fstest"
)

func init() {
	// C16: a vendor directory directly below GOPATH/src/<top> wins over GOPATH/src for importers at any depth
	verifProtocolScenarios = append(verifProtocolScenarios, verifScenario{"C16/interp.previousRoot/*", func() (bool, string) {
		files := map[string]string{
			"top/vendor/lib/lib.go": "package lib\nfunc Which() string { return \"top/vendor/lib\" }\n",
			"lib/lib.go":            "package lib\nfunc Which() string { return \"gopath lib\" }\n",
			"top/a/a.go":            "package a\nimport \"lib\"\nfunc Which() string { return lib.Which() }\n",
			"top/b/c/c.go":          "package c\nimport \"lib\"\nfunc Which() string { return lib.Which() }\n",
			"top/b/c/d/d.go":        "package d\nimport \"lib\"\nfunc Which() string { return lib.Which() }\n",
		}
		fsys := fstest.MapFS{}
		for p, src := range files {
			fsys["gp/src/"+p] = &fstest.MapFile{Data: []byte(src)}
		}
		bad := false
		msg := ""
		for _, c := range [][2]string{{"top/a", "a"}, {"top/b/c", "c"}, {"top/b/c/d", "d"}} {
			i := New(Options{GoPath: "./gp", SourcecodeFilesystem: fsys})
			_, err := i.Eval(`import "` + c[0] + `"`)
			got := ""
			if err == nil {
				v, e2 := i.Eval(c[1] + ".Which()")
				err = e2
				if e2 == nil {
					got = v.String()
				}
			}
			if err != nil || got != "top/vendor/lib" {
				bad = true
			}
			msg += fmt.Sprintf("importer %s resolves \"lib\" to %q (err %v); ", c[0], got, err)
		}
		return bad, msg + "the nearest enclosing vendor directory is top/vendor"
	}})
}
