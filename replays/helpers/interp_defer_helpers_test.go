package interp

import (
	"bytes"
	"fmt"
	"testing/fstest"
	"time"

	"github.com/traefik/yaegi/stdlib"
)

// verifOutput evaluates src with captured stdout/stderr and returns what was printed.
func verifOutput(src string) (string, error) {
	var out, errb bytes.Buffer
	i := New(Options{Stdout: &out, Stderr: &errb})
	if err := i.Use(stdlib.Symbols); err != nil {
		return "", err
	}
	_, err := i.Eval(src)
	return out.String(), err
}

func init() {
	expect := func(src, want string) func() (bool, string) {
		return func() (bool, string) {
			got, err := verifOutput(src)
			return got != want || err != nil, fmt.Sprintf("output %q (err %v), compiled Go prints %q", got, err, want)
		}
	}
	verifProtocolScenarios = append(verifProtocolScenarios,
		verifScenario{"C06/interp.runCfg/calls:recover/exit:all-deferred-run/panic", expect(`package main
import "fmt"
func f() {
	defer func() { r := recover(); fmt.Println("d1 recovered", r) }()
	defer func() { panic("p2") }()
	defer fmt.Println("d3")
	panic("p1")
}
func main() { f(); fmt.Println("end") }`, "d3\nd1 recovered p2\nend\n")},
		verifScenario{"C06/interp.callBin/defer:args-copied", expect(`package main
import "fmt"
func main() { x := 1; defer fmt.Println(x); x = 2 }`, "1\n")},
		verifScenario{"C06/interp.call/defer:args-copied", expect(`package main
import "fmt"
func show(v int) { fmt.Println(v) }
func main() { x := 1; defer show(x); x = 2 }`, "1\n")},
		verifScenario{"C06/interp.genBuiltinDeferWrapper/defer:args-copied", expect(`package main
import "fmt"
func main() { m := map[string]int{"a": 1, "b": 2}; k := "a"; defer func() { fmt.Println(len(m)) }(); defer delete(m, k); k = "zz" }`, "1\n")},
	)
}

// verifImportThenTypeError: main imports a source package whose init prints, and has a type error.
func verifImportThenTypeError() (string, error) {
	var out, errb bytes.Buffer
	fsys := fstest.MapFS{
		"_gopath/src/lib/lib.go": &fstest.MapFile{Data: []byte("package lib\nimport \"fmt\"\nfunc init() { fmt.Println(\"lib init ran\") }\nvar X = 1\n")},
	}
	i := New(Options{Stdout: &out, Stderr: &errb, GoPath: "_gopath", SourcecodeFilesystem: fsys})
	if err := i.Use(stdlib.Symbols); err != nil {
		return "", err
	}
	_, err := i.Eval("package main\nimport \"lib\"\nfunc main() { var s string = lib.X; println(s) }")
	return out.String(), err
}

func init() {
	// recover() called through an intermediate interpreted frame returns nil and does not stop the panic
	verifProtocolScenarios = append(verifProtocolScenarios, verifScenario{"C06/interp._recover/*", func() (bool, string) {
		got, err := verifOutput(`package main
import "fmt"
func helper() { r := recover(); fmt.Println("helper recovered", r) }
func f() {
	defer func() { helper() }()
	panic("boom")
}
func main() {
	defer func() { fmt.Println("main recovered", recover()) }()
	f()
	fmt.Println("not reached")
}`)
		want := "helper recovered <nil>\nmain recovered boom\n"
		return got != want || err != nil, fmt.Sprintf("output %q (err %v), compiled Go prints %q", got, err, want)
	}})
}

func init() {
	// `defer panic(v)` is deferred like any other call: the body completes first
	verifProtocolScenarios = append(verifProtocolScenarios, verifScenario{"C06/interp._panic/*", func() (bool, string) {
		got, err := verifOutput(`package main
import "fmt"
func f() {
	defer fmt.Println("deferred 1")
	defer panic("late")
	fmt.Println("body")
}
func main() {
	defer func() { fmt.Println("recovered", recover()) }()
	f()
}`)
		want := "body\ndeferred 1\nrecovered late\n"
		return got != want || err != nil, fmt.Sprintf("output %q (err %v), compiled Go prints %q", got, err, want)
	}})
}

func init() {
	// a deferred closure held in a variable: runCfg keeps the frame mutex locked while it runs the deferred
	// calls, and the function value made by getFunc locks the frame it was created in when it returns
	verifProtocolScenarios = append(verifProtocolScenarios, verifScenario{"C06/interp.runCfg/calls:recover/lock:free-across-call*", func() (bool, string) {
		type res struct {
			out string
			err error
		}
		done := make(chan res, 1)
		go func() {
			out, err := verifOutput(`package main
import "fmt"
func main() {
	h := func() { fmt.Println("recovered", recover()) }
	defer h()
	panic("boom")
}`)
			done <- res{out, err}
		}()
		want := "recovered boom\n"
		select {
		case r := <-done:
			return r.out != want || r.err != nil, fmt.Sprintf("output %q (err %v), compiled Go prints %q", r.out, r.err, want)
		case <-time.After(5 * time.Second):
			return true, fmt.Sprintf("Eval does not return within 5s (self-deadlock on the frame mutex); compiled Go prints %q", want)
		}
	}})
}

func init() {
	// an uncaught panic carrying http.ErrAbortHandler (its logging is suppressed) raised at top level: the
	// interpreter must stay usable — the next Eval returns
	verifProtocolScenarios = append(verifProtocolScenarios, verifScenario{"C06/interp.runCfg/calls:recover/lock:released-at-exit*", func() (bool, string) {
		var buf bytes.Buffer
		i := New(Options{Stdout: &buf, Stderr: &buf})
		if err := i.Use(stdlib.Symbols); err != nil {
			return true, err.Error()
		}
		_, err1 := i.Eval("import (\"net/http\"; \"text/template\")\nvar _ = template.Must(nil, http.ErrAbortHandler)")
		done := make(chan error, 1)
		go func() {
			_, err := i.Eval("println(\"still usable\")")
			done <- err
		}()
		select {
		case err2 := <-done:
			return err1 == nil || err2 != nil, fmt.Sprintf("first Eval error %v (want the panic as an error), second Eval error %v, output %q", err1, err2, buf.String())
		case <-time.After(5 * time.Second):
			return true, fmt.Sprintf("first Eval returned %v; the next Eval on the same interpreter does not return within 5s (a frame mutex was left locked)", err1)
		}
	}})
}
