#!/bin/bash
# trymutant.sh <prop> <patch> : apply to /repo, run the property's check, undo
cd /verif
[ -n "$(git -C /repo status --porcelain)" ] && { echo "/repo not clean"; exit 2; }
git -C /repo apply "$2" || exit 2
./check $1 --no-evidence 2>&1 | grep -E "^VIOLATION|^ENGINE|^UNDECIDED" | cut -c1-220 | head -${3:-4}
git -C /repo checkout -- .
