#!/bin/bash
# Runs every claimed check on the unchanged tree (must exit 0), then against every seeded change in
# /verif/seeded (must report a VIOLATION). /repo must be clean; each patch is undone straight away.
cd /verif || exit 2
if [ -n "$(git -C /repo status --porcelain)" ]; then echo "/repo is not clean"; exit 2; fi
claimed=$(python3 -c "import json; print(' '.join(c['property_id'] for c in json.load(open('/verif/MANIFEST.json'))['checks']))")
fail=0
if [ -z "$SKIP_CLEAN" ]; then echo "== unchanged tree"
for p in $claimed; do
  out=$(./check $p --no-evidence 2>&1); code=$?
  n=$(echo "$out" | grep -c "^VIOLATION")
  echo "$p exit=$code violations=$n"
  [ $code -ne 0 ] && fail=1
done
fi; echo "== seeded changes"
for d in seeded/*/; do
  id=$(basename $d); prop=${id%%-*}
  if ! echo " $claimed " | grep -q " $prop "; then echo "$id: property $prop not claimed — skipped"; continue; fi
  git -C /repo apply /verif/${d}patch.diff || { echo "$id: patch does not apply"; echo "  MISSED: $id (patch does not apply to the current tree)"; fail=1; continue; }
  out=$(./check $prop --no-evidence 2>&1); code=$?
  git -C /repo checkout -- . 
  v=$(echo "$out" | grep "^VIOLATION" | head -2 | sed 's/.*replay=.verif.replays.//' | tr '\n' ' ')
  echo "$id exit=$code $v"
  [ $code -ne 1 ] && { echo "  MISSED: $id"; fail=1; }
done
echo "SELFTEST fail=$fail"
exit $fail
